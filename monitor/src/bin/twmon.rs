fn main() {
    std::process::exit(twmon::cli::main_with(twmon::props::find));
}
