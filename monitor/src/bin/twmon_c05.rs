//! C05 — text that already fits is returned unchanged; the shortcut path is
//! unobservable. This is the only binary that links `textwrap::fuzzing`
//! (upstream's `--cfg fuzzing` entry points), so that a change to those entry
//! points cannot break the other checks.

use std::borrow::Cow;
use twmon::case::{Algo, Case, OptSpec, Pen, Sep, Split};
use twmon::gen::opts::{self, OptDomain};
use twmon::json::J;
use twmon::oracle::ansi::clean_ansi;
use twmon::oracle::width::ref_width;
use twmon::props::common::*;
use twmon::rng::Rng;
use twmon::run::{Obs, Prop, RunCfg, Verdict, Worker};

const DOM: OptDomain = OptDomain {
    allow_custom_split: true,
    allow_optimal: true,
    allow_random_pen: true,
    hostile_pen: false,
    allow_indents: true,
    allow_unicode: true,
};

fn gen(r: &mut Rng, _cfg: &RunCfg) -> Case {
    match r.below(5) {
        0..=1 => {
            // sweep: clean single paragraph, all widths from the display width to beyond the byte length
            let mut p = gen_line(r, TextDomain::Clean);
            if p.len() > 120 {
                let mut cut = 120;
                while !p.is_char_boundary(cut) {
                    cut -= 1;
                }
                p.truncate(cut);
                if !clean_ansi(&p) {
                    p = "truncated ".to_string();
                }
            }
            let mut o = OptSpec::new(0);
            if r.chance(1, 3) {
                o.ii = opts::indent(r);
            }
            o.si = if r.chance(1, 4) { opts::indent(r) } else { String::new() };
            o.bw = r.coin();
            o.crlf = r.chance(1, 4);
            o.sep = if cfg!(feature = "ulb") && r.coin() { Sep::Unicode } else { Sep::Ascii };
            o.split = if r.coin() { Split::Hyphen } else { Split::None };
            o.algo = if cfg!(feature = "smawk") && r.coin() { Algo::Optimal(Pen::DEFAULT) } else { Algo::FirstFit };
            // second-paragraph mode: the paragraph follows an empty first paragraph and carries the subsequent indent
            let second = r.chance(1, 3);
            if second && r.coin() {
                o.si = opts::indent(r);
            }
            Case::new("sweep").text(p).opt(o).num(second as usize)
        }
        2..=3 => {
            // differential on single lines, dirty sequences included
            let line = gen_line(r, TextDomain::Any);
            let w = match r.below(4) {
                0 => line.len().saturating_sub(2) + r.below(5),
                1 => r.range(0, line.len() + 3),
                2 => ref_width(&line).saturating_sub(1) + r.below(4),
                _ => opts::width(r, line.len(), ref_width(&line)),
            };
            let mut o = opts::options(r, DOM, w);
            if r.chance(2, 3) {
                o.ii.clear();
            }
            if r.chance(2, 3) {
                o.si.clear();
            }
            Case::new("diff_line").text(line).opt(o).num(r.below(2))
        }
        _ => {
            let text = if r.coin() { gen_line(r, TextDomain::Any) } else { gen_text(r, TextDomain::Any) };
            let w = match r.below(3) {
                0 => text.len().saturating_sub(2) + r.below(5),
                1 => r.range(0, text.len() + 3),
                _ => opts::width(r, text.len(), ref_width(&text)),
            };
            let mut o = opts::options(r, DOM, w);
            if r.chance(2, 3) {
                o.ii.clear();
            }
            Case::new("diff_fill").text(text).opt(o)
        }
    }
}

fn check(case: &Case, obs: &mut Obs) -> Verdict {
    let o = case.o(0);
    if !o.available() {
        return Verdict::Skipped("options not available in this feature set");
    }
    match case.sub.as_str() {
        "sweep" => {
            let p = case.t(0);
            if !clean_ansi(p) || !clean_ansi(&o.ii) || p.contains('\n') || p.contains('\r') {
                return Verdict::Skipped("outside the sweep's domain");
            }
            if o.split == Split::Custom {
                return Verdict::Skipped("custom splitter (inserted hyphens) is outside the fitting-text clause");
            }
            if let Algo::Optimal(pen) = o.algo {
                if !pen.is_default() {
                    return Verdict::Skipped("non-default penalties");
                }
            }
            let dw = textwrap::core::display_width;
            let second = case.nums.first().copied().unwrap_or(0) == 1;
            let ind: &str = if second { &o.si } else { &o.ii };
            if !clean_ansi(ind) {
                return Verdict::Skipped("outside the sweep's domain");
            }
            // bounds of the sweep from the harness's reference width (exact here: p and the indent are free of
            // malformed sequences), so that a wrong display_width in the library can neither hide a paragraph
            // that fits nor upset the harness's own arithmetic
            let lo = ref_width(ind) + ref_width(p);
            let hi = (p.len() + ref_width(ind) + 2).max(lo);
            let want = format!("{}{}", ind, p.trim_end_matches(' '));
            let text = if second { format!("{}{}", o.le(), p) } else { p.to_string() };
            let mut fast = 0u64;
            let mut slow = 0u64;
            for w in lo..=hi {
                let mut ow = o.clone();
                ow.width = w;
                let built = ow.build();
                let lines = if ow.by_ref(&text) { textwrap::wrap(&text, &built) } else { textwrap::wrap(&text, ow.build()) };
                obs.calls += 1;
                let got: &[std::borrow::Cow<str>] = if second {
                    if lines.is_empty() || lines[0] != o.ii.as_str() {
                        return Verdict::Violated(format!("empty first paragraph did not give the line {:?}: {:?}", o.ii, lines));
                    }
                    &lines[1..]
                } else {
                    &lines[..]
                };
                // fill must agree: the indent line (second-paragraph mode), then the paragraph without trailing spaces
                let filled = ow.fill(&text);
                obs.calls += 1;
                let want_filled = if second { format!("{}{}{}", o.ii, o.le(), want) } else { want.clone() };
                if filled != want_filled {
                    return Verdict::Violated(format!(
                        "{}paragraph {:?} (display width {} + indent {}) fits width {} but fill returned {:?} instead of {:?}",
                        if second { "second " } else { "" }, p, dw(p), dw(ind), w, filled, want_filled
                    ));
                }
                if got.len() != 1 || got[0] != want {
                    return Verdict::Violated(format!(
                        "{}paragraph {:?} (display width {} + indent {}) fits width {} but wrap returned {:?} instead of [{:?}]",
                        if second { "second " } else { "" }, p, dw(p), dw(ind), w, got, want
                    ));
                }
                if p.len() < w && ind.is_empty() {
                    fast += 1;
                } else {
                    slow += 1;
                }
            }
            if second && slow > 0 {
                obs.bump("sweep_second_paragraph");
            }
            if fast > 0 && slow > 0 {
                obs.bump("sweep_crossed_shortcut_threshold");
            }
            obs.add("sweep_widths_general_path", slow);
            obs.add("sweep_widths_shortcut", fast);
            if obs.want_sample {
                obs.out = Some(J::obj().set("widths", J::s(&format!("{}..={}", lo, hi))).set("line", J::s(&want)));
            }
            Verdict::held(
                !p.is_empty() && slow > 0,
                h(&[0, o.shape(), second as u64, bucket(hi.saturating_sub(lo)), (p.len() > ref_width(p)) as u64, p.contains('\u{1b}') as u64, p.ends_with(' ') as u64, p.starts_with(' ') as u64]),
            )
        }
        "fits_large" => {
            let line = case.t(0);
            let want = line.trim_end_matches(' ').to_string();
            let built = o.build();
            let lines = if o.by_ref(line) { textwrap::wrap(line, &built) } else { textwrap::wrap(line, o.build()) };
            let filled = o.fill(line);
            obs.calls += 2;
            if textwrap::core::display_width(line) <= o.width && clean_ansi(line) && !line.contains('\n') && o.split != Split::Custom && (lines.len() != 1 || lines[0] != want || filled != want) {
                return Verdict::Violated(format!(
                    "a paragraph of {} bytes / {} columns fits width {} but wrap returned {} line(s) and fill {} bytes (expected one line of {} bytes)",
                    line.len(), textwrap::core::display_width(line), o.width, lines.len(), filled.len(), want.len()
                ));
            }
            Verdict::held(true, h(&[9, o.shape()]))
        }
        "diff_line" => {
            let line = case.t(0);
            {
                let ind: &str = if case.nums[0] == 0 { &o.ii } else { &o.si };
                if o.split == Split::Custom && ref_width(line) + ref_width(ind) <= o.width {
                    return Verdict::Skipped("custom (hyphen-inserting) splitter on fitting text: outside the fitting-text clause, either result is acceptable");
                }
                // malformed sequences make widths non-additive: a line can "fit" as a whole while its fragments do
                // not; returning it unbroken or wrapping it are both compatible with the statement
                if !clean_ansi(line) && (ref_width(line).min(textwrap::core::display_width(line)) + ref_width(ind) <= o.width) {
                    return Verdict::Skipped("malformed sequences and the whole line fits by display width: either result is acceptable");
                }
            }
            let opts = o.build();
            let seed_lines = case.nums[0];
            let mut a: Vec<Cow<str>> = Vec::new();
            let mut b: Vec<Cow<str>> = Vec::new();
            for _ in 0..seed_lines {
                a.push(Cow::from("earlier line"));
                b.push(Cow::from("earlier line"));
            }
            textwrap::fuzzing::wrap_single_line(line, &opts, &mut a);
            textwrap::fuzzing::wrap_single_line_slow_path(line, &opts, &mut b);
            obs.calls += 2;
            if a != b {
                return Verdict::Violated(format!("wrap_single_line {:?} != wrap_single_line_slow_path {:?} for line {:?}", a, b, line));
            }
            let indent_empty = if seed_lines == 0 { o.ii.is_empty() } else { o.si.is_empty() };
            let shortcut = line.len() < o.width && indent_empty;
            if shortcut {
                obs.bump("diff_line_shortcut_taken");
            } else {
                obs.bump("diff_line_general_path");
            }
            if obs.want_sample {
                obs.out = Some(lines_json(&a));
            }
            Verdict::held(shortcut, h(&[1, o.shape(), shortcut as u64, bucket(a.len()), !clean_ansi(line) as u64, (line.len() > ref_width(line)) as u64]))
        }
        _ => {
            let text = case.t(0);
            if o.split == Split::Custom && text.split(o.le()).any(|p| ref_width(p) + ref_width(&o.si).max(ref_width(&o.ii)) <= o.width && !p.is_empty()) {
                return Verdict::Skipped("custom (hyphen-inserting) splitter on fitting text: outside the fitting-text clause, either result is acceptable");
            }
            if !clean_ansi(text) && text.split(o.le()).any(|p| !clean_ansi(p) && ref_width(p).min(textwrap::core::display_width(p)) + ref_width(&o.si).max(ref_width(&o.ii)) <= o.width) {
                return Verdict::Skipped("malformed sequences and a whole paragraph fits by display width: either result is acceptable");
            }
            let a = o.fill(text);
            let b = textwrap::fuzzing::fill_slow_path(text, o.build());
            obs.calls += 2;
            if a != b {
                return Verdict::Violated(format!("fill {:?} != fill_slow_path {:?} for text {:?}", a, b, text));
            }
            let shortcut = text.len() < o.width && !text.contains('\n') && o.ii.is_empty();
            if shortcut {
                obs.bump("diff_fill_shortcut_taken");
            } else {
                obs.bump("diff_fill_general_path");
            }
            Verdict::held(shortcut, h(&[2, o.shape(), shortcut as u64, !clean_ansi(text) as u64, (text.len() > ref_width(text)) as u64]))
        }
    }
}

/// KF-2: the hyphen splitter cuts inside an escape sequence that contains a
/// hyphen; attributable when the same case holds without the hyphen splitter.
fn known(case: &Case, _msg: &str) -> Option<&'static str> {
    let o = case.o(0);
    if o.split == Split::Hyphen && twmon::oracle::words::hyphen_point_inside_sequence(case.t(0)) {
        let mut c2 = case.clone();
        c2.opts[0].split = Split::None;
        let mut obs = Obs::default();
        if matches!(check(&c2, &mut obs), Verdict::Held { .. }) {
            return Some("KF-2");
        }
    }
    None
}

fn extra(cfg: &RunCfg, w: &mut Worker) {
    // exhaustive small strings: sweep over every width for every small clean string
    let max = if cfg.thorough { 6 } else { 4 };
    let alphabet: &[&str] = &["a", " ", "-", "你", "\u{301}", "\u{1b}[m"];
    let threads = cfg.threads.max(1);
    let mut idx = 0usize;
    let mut todo = Vec::new();
    twmon::gen::text::enumerate_strings(alphabet, max, |s| {
        if idx % threads == w.id {
            todo.push(s.to_string());
        }
        idx += 1;
    });
    let mut n = 0u64;
    'outer: for s in todo {
        for g in small_option_grid() {
            if w.stopped() {
                break 'outer;
            }
            w.run_case(&Case::new("sweep").text(s.clone()).opt(g.clone()));
            n += 1;
        }
    }
    // size thresholds: fill vs fill_slow_path and wrap_single_line vs slow path on texts around 2^12 and 2^16 bytes,
    // with trailing spaces, for every option combination of the grid
    {
        let mut r = Rng::stream(cfg.seed, &["C05", "large"], w.id as u64);
        let sizes: &[usize] = if cfg.thorough { &[4090, 4096, 4100, 65530, 65536, 65600] } else { &[4100, 65600] };
        let grid = small_option_grid();
        let mut idx = 0usize;
        for &target in sizes {
            for g in &grid {
                idx += 1;
                if idx % threads != w.id {
                    continue;
                }
                let mut big = String::new();
                while big.len() < target {
                    big.push_str(&gen_line(&mut r, TextDomain::Clean));
                    big.push_str(if r.chance(1, 6) { "   \n" } else { " " });
                }
                big.push_str("   ");
                for width in [60usize, big.len() + 5] {
                    let mut o = g.clone();
                    o.width = width;
                    w.run_case(&Case::new("diff_fill").text(big.clone()).opt(o));
                }
                // a long single paragraph that fits: wrap / fill at widths around the display width and the byte length
                {
                    let line: String = big.replace('\n', " ");
                    let dwl = ref_width(&line);
                    for width in [dwl, dwl + 1, line.len().saturating_sub(1), line.len(), line.len() + 1, line.len() + 7] {
                        if width < dwl {
                            continue;
                        }
                        let mut o = g.clone();
                        o.width = width;
                        w.run_case(&Case::new("fits_large").text(line.clone()).opt(o));
                    }
                }
                // one long single line that fits: sweep-like check at a single width beyond the byte length
                let line: String = big.replace('\n', " ");
                let mut o = g.clone();
                o.width = line.len() + 1;
                w.run_case(&Case::new("diff_line").text(line).opt(o).num(0));
                *w.stats.counters.entry("large_texts".to_string()).or_insert(0) += 1;
            }
        }
    }
    if w.id == 0 {
        w.note_exhaustive(
            "small-strings-sweep",
            &format!("all strings of <= {} tokens over {{a,' ','-',你,U+0301,ESC[m}} x option grid, each swept over every width from the display width to byte length + 2 (sharded; this worker ran {})", max, n),
            n * threads as u64,
        );
    }
}

fn prop() -> Prop {
    Prop {
        id: "C05",
        rule: "sweep (2/5): clean single paragraphs (multi-byte and coloured, so byte length > display width) with optional indents (also as the second paragraph of a text, carrying the subsequent indent), every separator, built-in splitters, break_words on/off, first-fit and default-penalty optimal-fit, wrapped at EVERY width from display width (+ indent) to byte length + 2: the result must be exactly [indent + paragraph without trailing spaces]; differential (3/5): textwrap::fuzzing::wrap_single_line vs wrap_single_line_slow_path on arbitrary lines (dirty sequences included, with and without previously emitted lines) and fill vs fill_slow_path on arbitrary texts, widths on both sides of the byte length; + exhaustive small strings. non-trivial = the sweep exercised the general path on fitting text / the differential case took the shortcut; distinct = (sub-check, option shape, sweep length bucket or shortcut taken, bytes > columns, sequences, leading / trailing space)",
        gen,
        check,
        panic_is_violation: false,
        budget: (1200000, 36000000),
        extra: Some(extra),
        required: &["large_texts", "sweep_crossed_shortcut_threshold", "sweep_second_paragraph", "diff_line_shortcut_taken", "diff_line_general_path", "diff_fill_shortcut_taken", "diff_fill_general_path"],
        known: Some(known),
    }
}

fn find(id: &str) -> Option<Prop> {
    if id == "C05" {
        Some(prop())
    } else {
        None
    }
}

fn main() {
    std::process::exit(twmon::cli::main_with(find));
}
