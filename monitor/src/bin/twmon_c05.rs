fn main() {
    println!("todo");
}
