//! Small deterministic PRNG (SplitMix64 seeding a xoshiro256**), no dependencies.

#[derive(Clone, Debug)]
pub struct Rng {
    s: [u64; 4],
}

fn splitmix(x: &mut u64) -> u64 {
    *x = x.wrapping_add(0x9E3779B97F4A7C15);
    let mut z = *x;
    z = (z ^ (z >> 30)).wrapping_mul(0xBF58476D1CE4E5B9);
    z = (z ^ (z >> 27)).wrapping_mul(0x94D049BB133111EB);
    z ^ (z >> 31)
}

/// FNV-1a, used to derive stream ids from names and for behaviour signatures.
pub fn fnv(bytes: &[u8]) -> u64 {
    let mut h: u64 = 0xcbf29ce484222325;
    for b in bytes {
        h ^= *b as u64;
        h = h.wrapping_mul(0x100000001b3);
    }
    h
}

pub fn mix(a: u64, b: u64) -> u64 {
    let mut x = a ^ b.rotate_left(32) ^ 0x51_7c_c1_b7_27_22_0a_95;
    splitmix(&mut x)
}

impl Rng {
    pub fn new(seed: u64) -> Rng {
        let mut x = seed;
        let s = [
            splitmix(&mut x),
            splitmix(&mut x),
            splitmix(&mut x),
            splitmix(&mut x),
        ];
        Rng { s }
    }

    /// Independent stream for (seed, names..).
    pub fn stream(seed: u64, parts: &[&str], idx: u64) -> Rng {
        let mut h = seed;
        for p in parts {
            h = mix(h, fnv(p.as_bytes()));
        }
        Rng::new(mix(h, idx))
    }

    pub fn next(&mut self) -> u64 {
        let s = &mut self.s;
        let r = s[1].wrapping_mul(5).rotate_left(7).wrapping_mul(9);
        let t = s[1] << 17;
        s[2] ^= s[0];
        s[3] ^= s[1];
        s[1] ^= s[2];
        s[0] ^= s[3];
        s[2] ^= t;
        s[3] = s[3].rotate_left(45);
        r
    }

    /// Uniform in 0..n (n > 0).
    pub fn below(&mut self, n: usize) -> usize {
        debug_assert!(n > 0);
        ((self.next() >> 11) % (n as u64)) as usize
    }

    /// Uniform in lo..=hi.
    pub fn range(&mut self, lo: usize, hi: usize) -> usize {
        lo + self.below(hi - lo + 1)
    }

    pub fn chance(&mut self, num: usize, den: usize) -> bool {
        self.below(den) < num
    }

    pub fn coin(&mut self) -> bool {
        self.next() & 1 == 1
    }

    pub fn pick<'a, T>(&mut self, xs: &'a [T]) -> &'a T {
        &xs[self.below(xs.len())]
    }

    pub fn f01(&mut self) -> f64 {
        (self.next() >> 11) as f64 / (1u64 << 53) as f64
    }
}

/// 2^53 and 2^40 as usize (truncated on 32-bit targets, where the monitors run under Miri).
pub const P53: usize = (1u64 << 53) as usize;
pub const P53_PLUS_1: usize = ((1u64 << 53) + 1) as usize;
pub const P40: usize = (1u64 << 40) as usize;
pub const P52: usize = (1u64 << 52) as usize;
