//! Minimal JSON value, writer and parser (no dependencies).

use std::collections::BTreeMap;
use std::fmt::Write;

#[derive(Clone, Debug, PartialEq)]
pub enum J {
    Null,
    Bool(bool),
    Int(i128),
    Num(f64),
    Str(String),
    Arr(Vec<J>),
    Obj(Vec<(String, J)>),
}

impl J {
    pub fn obj() -> J {
        J::Obj(Vec::new())
    }
    pub fn set(mut self, k: &str, v: J) -> J {
        self.put(k, v);
        self
    }
    pub fn put(&mut self, k: &str, v: J) {
        if let J::Obj(items) = self {
            if let Some(slot) = items.iter_mut().find(|(kk, _)| kk == k) {
                slot.1 = v;
            } else {
                items.push((k.to_string(), v));
            }
        }
    }
    pub fn get(&self, k: &str) -> Option<&J> {
        match self {
            J::Obj(items) => items.iter().find(|(kk, _)| kk == k).map(|(_, v)| v),
            _ => None,
        }
    }
    pub fn as_str(&self) -> Option<&str> {
        match self {
            J::Str(s) => Some(s),
            _ => None,
        }
    }
    pub fn as_i128(&self) -> Option<i128> {
        match self {
            J::Int(i) => Some(*i),
            J::Num(f) => Some(*f as i128),
            _ => None,
        }
    }
    pub fn as_usize(&self) -> Option<usize> {
        self.as_i128().map(|i| i as usize)
    }
    pub fn as_bool(&self) -> Option<bool> {
        match self {
            J::Bool(b) => Some(*b),
            _ => None,
        }
    }
    pub fn as_arr(&self) -> Option<&Vec<J>> {
        match self {
            J::Arr(a) => Some(a),
            _ => None,
        }
    }
    pub fn s(x: &str) -> J {
        J::Str(x.to_string())
    }
    pub fn u(x: usize) -> J {
        J::Int(x as i128)
    }
    pub fn u64(x: u64) -> J {
        J::Int(x as i128)
    }

    pub fn to_string(&self) -> String {
        let mut out = String::new();
        self.write(&mut out);
        out
    }

    pub fn write(&self, out: &mut String) {
        match self {
            J::Null => out.push_str("null"),
            J::Bool(b) => out.push_str(if *b { "true" } else { "false" }),
            J::Int(i) => {
                let _ = write!(out, "{}", i);
            }
            J::Num(f) => {
                if f.is_finite() {
                    let _ = write!(out, "{:?}", f);
                } else {
                    out.push_str("null");
                }
            }
            J::Str(s) => write_str(s, out),
            J::Arr(a) => {
                out.push('[');
                for (i, v) in a.iter().enumerate() {
                    if i > 0 {
                        out.push(',');
                    }
                    v.write(out);
                }
                out.push(']');
            }
            J::Obj(items) => {
                out.push('{');
                for (i, (k, v)) in items.iter().enumerate() {
                    if i > 0 {
                        out.push(',');
                    }
                    write_str(k, out);
                    out.push(':');
                    v.write(out);
                }
                out.push('}');
            }
        }
    }
}

fn write_str(s: &str, out: &mut String) {
    out.push('"');
    for c in s.chars() {
        match c {
            '"' => out.push_str("\\\""),
            '\\' => out.push_str("\\\\"),
            '\n' => out.push_str("\\n"),
            '\r' => out.push_str("\\r"),
            '\t' => out.push_str("\\t"),
            c if (c as u32) < 0x20 || c == '\u{7f}' || ('\u{80}'..='\u{9f}').contains(&c) || c == '\u{2028}' || c == '\u{2029}' => {
                let _ = write!(out, "\\u{:04x}", c as u32);
            }
            c => out.push(c),
        }
    }
    out.push('"');
}

pub fn hex(bytes: &[u8]) -> String {
    let mut s = String::with_capacity(bytes.len() * 2);
    for b in bytes {
        let _ = write!(s, "{:02x}", b);
    }
    s
}

pub fn unhex(s: &str) -> Option<Vec<u8>> {
    let b = s.as_bytes();
    if b.len() % 2 != 0 {
        return None;
    }
    let mut out = Vec::with_capacity(b.len() / 2);
    for i in (0..b.len()).step_by(2) {
        let h = (b[i] as char).to_digit(16)?;
        let l = (b[i + 1] as char).to_digit(16)?;
        out.push((h * 16 + l) as u8);
    }
    Some(out)
}

/// Counts map -> JSON object (sorted).
pub fn counts(m: &BTreeMap<String, u64>) -> J {
    J::Obj(m.iter().map(|(k, v)| (k.clone(), J::u64(*v))).collect())
}

// ---------------------------------------------------------------- parser

pub fn parse(src: &str) -> Result<J, String> {
    let mut p = P { b: src.as_bytes(), i: 0 };
    p.ws();
    let v = p.val()?;
    p.ws();
    if p.i != p.b.len() {
        return Err(format!("trailing data at {}", p.i));
    }
    Ok(v)
}

struct P<'a> {
    b: &'a [u8],
    i: usize,
}

impl<'a> P<'a> {
    fn ws(&mut self) {
        while self.i < self.b.len() && matches!(self.b[self.i], b' ' | b'\n' | b'\r' | b'\t') {
            self.i += 1;
        }
    }
    fn val(&mut self) -> Result<J, String> {
        self.ws();
        if self.i >= self.b.len() {
            return Err("eof".into());
        }
        match self.b[self.i] {
            b'{' => {
                self.i += 1;
                let mut items = Vec::new();
                self.ws();
                if self.peek() == Some(b'}') {
                    self.i += 1;
                    return Ok(J::Obj(items));
                }
                loop {
                    self.ws();
                    let k = match self.val()? {
                        J::Str(s) => s,
                        _ => return Err("key".into()),
                    };
                    self.ws();
                    if self.peek() != Some(b':') {
                        return Err(format!("expected : at {}", self.i));
                    }
                    self.i += 1;
                    let v = self.val()?;
                    items.push((k, v));
                    self.ws();
                    match self.peek() {
                        Some(b',') => self.i += 1,
                        Some(b'}') => {
                            self.i += 1;
                            return Ok(J::Obj(items));
                        }
                        _ => return Err(format!("expected , or }} at {}", self.i)),
                    }
                }
            }
            b'[' => {
                self.i += 1;
                let mut items = Vec::new();
                self.ws();
                if self.peek() == Some(b']') {
                    self.i += 1;
                    return Ok(J::Arr(items));
                }
                loop {
                    let v = self.val()?;
                    items.push(v);
                    self.ws();
                    match self.peek() {
                        Some(b',') => self.i += 1,
                        Some(b']') => {
                            self.i += 1;
                            return Ok(J::Arr(items));
                        }
                        _ => return Err(format!("expected , or ] at {}", self.i)),
                    }
                }
            }
            b'"' => {
                self.i += 1;
                let mut s = String::new();
                loop {
                    if self.i >= self.b.len() {
                        return Err("eof in string".into());
                    }
                    let c = self.b[self.i];
                    self.i += 1;
                    match c {
                        b'"' => return Ok(J::Str(s)),
                        b'\\' => {
                            let e = self.b.get(self.i).copied().ok_or("eof")?;
                            self.i += 1;
                            match e {
                                b'n' => s.push('\n'),
                                b'r' => s.push('\r'),
                                b't' => s.push('\t'),
                                b'b' => s.push('\u{8}'),
                                b'f' => s.push('\u{c}'),
                                b'u' => {
                                    let h = std::str::from_utf8(&self.b[self.i..self.i + 4])
                                        .map_err(|e| e.to_string())?;
                                    let mut cp = u32::from_str_radix(h, 16).map_err(|e| e.to_string())?;
                                    self.i += 4;
                                    if (0xD800..0xDC00).contains(&cp)
                                        && self.b.get(self.i) == Some(&b'\\')
                                        && self.b.get(self.i + 1) == Some(&b'u')
                                    {
                                        let h2 = std::str::from_utf8(&self.b[self.i + 2..self.i + 6])
                                            .map_err(|e| e.to_string())?;
                                        let lo = u32::from_str_radix(h2, 16).map_err(|e| e.to_string())?;
                                        self.i += 6;
                                        cp = 0x10000 + ((cp - 0xD800) << 10) + (lo - 0xDC00);
                                    }
                                    s.push(char::from_u32(cp).unwrap_or('\u{fffd}'));
                                }
                                other => s.push(other as char),
                            }
                        }
                        _ => {
                            // copy raw UTF-8 bytes
                            let start = self.i - 1;
                            let mut end = self.i;
                            while end < self.b.len() && self.b[end] != b'"' && self.b[end] != b'\\' {
                                end += 1;
                            }
                            s.push_str(std::str::from_utf8(&self.b[start..end]).map_err(|e| e.to_string())?);
                            self.i = end;
                        }
                    }
                }
            }
            b't' => self.lit("true", J::Bool(true)),
            b'f' => self.lit("false", J::Bool(false)),
            b'n' => self.lit("null", J::Null),
            _ => {
                let start = self.i;
                while self.i < self.b.len()
                    && matches!(self.b[self.i], b'0'..=b'9' | b'-' | b'+' | b'.' | b'e' | b'E')
                {
                    self.i += 1;
                }
                let t = std::str::from_utf8(&self.b[start..self.i]).unwrap();
                if let Ok(i) = t.parse::<i128>() {
                    Ok(J::Int(i))
                } else {
                    t.parse::<f64>().map(J::Num).map_err(|e| format!("{} at {}", e, start))
                }
            }
        }
    }
    fn peek(&self) -> Option<u8> {
        self.b.get(self.i).copied()
    }
    fn lit(&mut self, word: &str, v: J) -> Result<J, String> {
        if self.b[self.i..].starts_with(word.as_bytes()) {
            self.i += word.len();
            Ok(v)
        } else {
            Err(format!("bad literal at {}", self.i))
        }
    }
}
