//! twmon — runtime monitors for textwrap properties C01..C20.
#![cfg_attr(not(all(feature = "uw", feature = "ulb", feature = "smawk")), allow(unused_imports, unused_mut, unused_variables, dead_code))]
pub mod case;
pub mod cli;
pub mod gen;
pub mod json;
pub mod oracle;
pub mod props;
pub mod rng;
pub mod run;
