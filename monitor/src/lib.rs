//! twmon — runtime monitors for textwrap properties C01..C20.
pub mod case;
pub mod cli;
pub mod gen;
pub mod json;
pub mod oracle;
pub mod props;
pub mod rng;
pub mod run;
