//! Runner: worker threads, panic capture, statistics, result JSON.

use crate::case::Case;
use crate::json::J;
use crate::rng::Rng;
use std::cell::RefCell;
use std::collections::{BTreeMap, HashSet};
use std::io::Write;
use std::panic::{catch_unwind, AssertUnwindSafe};
use std::sync::atomic::{AtomicBool, AtomicU64, Ordering};
use std::sync::Mutex;
use std::time::{Duration, Instant};

#[derive(Debug)]
pub enum Verdict {
    Held { nontrivial: bool, sig: u64 },
    Skipped(&'static str),
    Inconclusive(String),
    Violated(String),
}

impl Verdict {
    pub fn held(nontrivial: bool, sig: u64) -> Verdict {
        Verdict::Held { nontrivial, sig }
    }
}

/// Per-case observation sink handed to checks.
#[derive(Default)]
pub struct Obs {
    pub counters: BTreeMap<&'static str, u64>,
    pub want_sample: bool,
    pub out: Option<J>,
    /// number of library calls made by this case
    pub calls: u64,
}

impl Obs {
    pub fn bump(&mut self, k: &'static str) {
        *self.counters.entry(k).or_insert(0) += 1;
    }
    pub fn add(&mut self, k: &'static str, n: u64) {
        *self.counters.entry(k).or_insert(0) += n;
    }
    pub fn max(&mut self, k: &'static str, n: u64) {
        let e = self.counters.entry(k).or_insert(0);
        if n > *e {
            *e = n;
        }
    }
}

pub type CheckFn = fn(&Case, &mut Obs) -> Verdict;
pub type GenFn = fn(&mut Rng, &RunCfg) -> Case;

#[derive(Clone)]
pub struct Prop {
    pub id: &'static str,
    pub rule: &'static str,
    pub gen: GenFn,
    pub check: CheckFn,
    /// A panic of the library inside this property's check is a violation of
    /// this property (C04, C20); otherwise it is recorded as inconclusive.
    pub panic_is_violation: bool,
    /// cases per flavour: (quick, thorough)
    pub budget: (u64, u64),
    /// Additional deterministic sub-runs (exhaustive / corpus / stress).
    pub extra: Option<fn(&RunCfg, &mut Worker)>,
    /// Counters that must be non-zero for a run to count as having observed
    /// the property (else harness error, not "held").
    pub required: &'static [&'static str],
    /// Map a violation to a known-finding signature id (if it matches one).
    pub known: Option<fn(&Case, &str) -> Option<&'static str>>,
}

#[derive(Clone, Debug)]
pub struct RunCfg {
    pub prop: String,
    pub thorough: bool,
    pub seed: u64,
    pub threads: usize,
    pub cases: Option<u64>,
    pub flavour: String,
    pub journal: Option<String>,
    pub deadline: Duration,
    pub miri: bool,
    pub no_extra: bool,
    pub max_violations: usize,
}

#[derive(Clone, Debug)]
pub struct Violation {
    pub case: Case,
    pub msg: String,
    pub known: Option<&'static str>,
    pub worker: usize,
    pub index: u64,
}

#[derive(Default)]
pub struct Stats {
    pub evaluations: u64,
    pub calls: u64,
    pub held: u64,
    pub nontrivial: u64,
    pub sigs: HashSet<u64>,
    pub skipped: BTreeMap<String, u64>,
    pub inconclusive: BTreeMap<String, u64>,
    pub counters: BTreeMap<String, u64>,
    pub max_counters: BTreeMap<String, u64>,
    pub violations: Vec<Violation>,
    pub violations_total: u64,
    pub known_total: BTreeMap<String, u64>,
    pub harness_panics: Vec<String>,
    pub samples: Vec<J>,
    pub exhaustive_subruns: Vec<J>,
    pub deadline_hit: bool,
}

impl Stats {
    pub fn merge(&mut self, o: Stats) {
        self.evaluations += o.evaluations;
        self.calls += o.calls;
        self.held += o.held;
        self.nontrivial += o.nontrivial;
        self.sigs.extend(o.sigs);
        for (k, v) in o.skipped {
            *self.skipped.entry(k).or_insert(0) += v;
        }
        for (k, v) in o.inconclusive {
            *self.inconclusive.entry(k).or_insert(0) += v;
        }
        for (k, v) in o.counters {
            *self.counters.entry(k).or_insert(0) += v;
        }
        for (k, v) in o.max_counters {
            let e = self.max_counters.entry(k).or_insert(0);
            if v > *e {
                *e = v;
            }
        }
        self.violations_total += o.violations_total;
        for (k, v) in o.known_total {
            *self.known_total.entry(k).or_insert(0) += v;
        }
        for v in o.violations {
            if self.violations.len() < 64 {
                self.violations.push(v);
            }
        }
        self.harness_panics.extend(o.harness_panics);
        for s in o.samples {
            if self.samples.len() < 8 {
                self.samples.push(s);
            }
        }
        self.exhaustive_subruns.extend(o.exhaustive_subruns);
        self.deadline_hit |= o.deadline_hit;
    }
}

// ------------------------------------------------------------ panic capture

thread_local! {
    static LAST_PANIC: RefCell<Option<(String, String)>> = RefCell::new(None);
    static CURRENT_CALL: std::cell::Cell<&'static str> = std::cell::Cell::new("");
}

/// Name the library function about to be called (used in panic reports).
pub fn mark(name: &'static str) {
    CURRENT_CALL.with(|c| c.set(name));
}

pub fn current_call() -> &'static str {
    CURRENT_CALL.with(|c| c.get())
}

pub fn install_panic_hook() {
    std::panic::set_hook(Box::new(|info| {
        let loc = info.location().map(|l| format!("{}:{}", l.file(), l.line())).unwrap_or_default();
        let msg = if let Some(s) = info.payload().downcast_ref::<&str>() {
            s.to_string()
        } else if let Some(s) = info.payload().downcast_ref::<String>() {
            s.clone()
        } else {
            "non-string panic payload".to_string()
        };
        LAST_PANIC.with(|p| *p.borrow_mut() = Some((loc, msg)));
    }));
}

pub fn take_panic() -> (String, String) {
    LAST_PANIC.with(|p| p.borrow_mut().take()).unwrap_or_default()
}

/// Is this panic location inside the harness itself (a harness bug)?
fn is_harness_location(loc: &str) -> bool {
    loc.contains("monitor/src/") || loc.starts_with("src/")
}

// ------------------------------------------------------------------ worker

pub struct Worker {
    pub id: usize,
    pub stats: Stats,
    pub prop: Prop,
    journal: Option<std::fs::File>,
    start: Instant,
    deadline: Duration,
    stop: &'static AtomicBool,
    max_violations: usize,
    index: u64,
}

static STOP: AtomicBool = AtomicBool::new(false);
static VIOLATIONS_SEEN: AtomicU64 = AtomicU64::new(0);

impl Worker {
    pub fn stopped(&mut self) -> bool {
        if self.stop.load(Ordering::Relaxed) {
            return true;
        }
        if self.index % 64 == 0 && self.start.elapsed() > self.deadline {
            self.stats.deadline_hit = true;
            self.stop.store(true, Ordering::Relaxed);
            return true;
        }
        false
    }

    /// Run one case through the property's check with panic capture.
    pub fn run_case(&mut self, case: &Case) {
        self.index += 1;
        if let Some(f) = self.journal.as_mut() {
            let line = case.to_json().to_string();
            let _ = f.set_len(0);
            use std::io::Seek;
            let _ = f.seek(std::io::SeekFrom::Start(0));
            let _ = f.write_all(line.as_bytes());
            let _ = f.flush();
        }
        let mut obs = Obs::default();
        mark("");
        obs.want_sample = self.stats.samples.len() < 3;
        let check = self.prop.check;
        let res = catch_unwind(AssertUnwindSafe(|| check(case, &mut obs)));
        self.stats.evaluations += 1;
        self.stats.calls += obs.calls;
        let verdict = match res {
            Ok(v) => v,
            Err(_) => {
                let (loc, msg) = take_panic();
                if is_harness_location(&loc) {
                    if self.stats.harness_panics.len() < 8 {
                        self.stats.harness_panics.push(format!("{} at {} case={}", msg, loc, case.to_json().to_string()));
                    }
                    Verdict::Inconclusive("harness panic".to_string())
                } else if self.prop.panic_is_violation {
                    let call = current_call();
                    Verdict::Violated(format!("library panicked{}: {} at {}", if call.is_empty() { String::new() } else { format!(" in {}", call) }, msg, loc))
                } else {
                    Verdict::Inconclusive(format!("callee panicked at {}", loc))
                }
            }
        };
        for (k, v) in &obs.counters {
            if k.starts_with("max_") {
                let e = self.stats.max_counters.entry(k.to_string()).or_insert(0);
                if *v > *e {
                    *e = *v;
                }
            } else {
                *self.stats.counters.entry(k.to_string()).or_insert(0) += v;
            }
        }
        match verdict {
            Verdict::Held { nontrivial, sig } => {
                self.stats.held += 1;
                if nontrivial {
                    self.stats.nontrivial += 1;
                    let fresh = self.stats.sigs.insert(sig);
                    if fresh && self.stats.samples.len() < 3 {
                        let mut s = J::obj().set("input", case.to_json());
                        if let Some(o) = obs.out.take() {
                            s.put("observed", o);
                        }
                        self.stats.samples.push(s);
                    }
                }
            }
            Verdict::Skipped(r) => {
                *self.stats.skipped.entry(r.to_string()).or_insert(0) += 1;
            }
            Verdict::Inconclusive(r) => {
                *self.stats.inconclusive.entry(r).or_insert(0) += 1;
            }
            Verdict::Violated(msg) => {
                // the signature predicate may re-run library code: never let it unwind
                let known = self
                    .prop
                    .known
                    .and_then(|f| catch_unwind(AssertUnwindSafe(|| f(case, &msg))).ok().flatten());
                self.stats.violations_total += 1;
                if let Some(k) = known {
                    *self.stats.known_total.entry(k.to_string()).or_insert(0) += 1;
                }
                // keep a few of each kind
                let same_kind = self.stats.violations.iter().filter(|v| v.known == known).count();
                if same_kind < 6 {
                    self.stats.violations.push(Violation { case: case.clone(), msg, known, worker: self.id, index: self.index });
                }
                if known.is_none() {
                    let n = VIOLATIONS_SEEN.fetch_add(1, Ordering::Relaxed) + 1;
                    if n as usize >= self.max_violations {
                        self.stop.store(true, Ordering::Relaxed);
                    }
                }
            }
        }
    }

    /// Record a deterministic sub-run that is not an exhaustive enumeration (corpus, stress).
    pub fn note_subrun(&mut self, name: &str, space: &str, cases: u64) {
        self.stats
            .exhaustive_subruns
            .push(J::obj().set("name", J::s(name)).set("space", J::s(space)).set("cases", J::u64(cases)).set("exhaustive", J::Bool(false)));
    }

    pub fn note_exhaustive(&mut self, name: &str, space: &str, cases: u64) {
        self.stats
            .exhaustive_subruns
            .push(J::obj().set("name", J::s(name)).set("space", J::s(space)).set("cases", J::u64(cases)).set("exhaustive", J::Bool(true)));
    }
}

// --------------------------------------------------------------------- run

pub fn run(prop: Prop, cfg: &RunCfg) -> (Stats, f64) {
    install_panic_hook();
    let start = Instant::now();
    let threads = cfg.threads.max(1);
    let total = cfg.cases.unwrap_or(if cfg.thorough { prop.budget.1 } else { prop.budget.0 });
    let per = (total + threads as u64 - 1) / threads as u64;
    let merged = Mutex::new(Stats::default());

    let body = |wid: usize| {
        let mut rng = Rng::stream(cfg.seed, &[&cfg.prop, &cfg.flavour, if cfg.thorough { "thorough" } else { "quick" }], wid as u64);
        let journal = cfg.journal.as_ref().map(|dir| {
            std::fs::OpenOptions::new()
                .create(true)
                .write(true)
                .open(format!("{}/journal_{}.json", dir, wid))
                .expect("journal file")
        });
        let mut w = Worker {
            id: wid,
            stats: Stats::default(),
            prop: prop.clone(),
            journal,
            start,
            deadline: cfg.deadline,
            stop: &STOP,
            max_violations: cfg.max_violations,
            index: 0,
        };
        // deterministic extra sub-runs are sharded by worker id inside `extra`
        // generators and sub-run drivers never call the library outside run_case; should one panic anyway it is
        // a harness defect and is reported as such instead of killing the process
        if !cfg.no_extra {
            if let Some(extra) = prop.extra {
                if catch_unwind(AssertUnwindSafe(|| extra(cfg, &mut w))).is_err() {
                    let (loc, msg) = take_panic();
                    w.stats.harness_panics.push(format!("sub-run driver panicked: {} at {}", msg, loc));
                }
            }
        }
        let gen = prop.gen;
        for _ in 0..per {
            if w.stopped() {
                break;
            }
            match catch_unwind(AssertUnwindSafe(|| gen(&mut rng, cfg))) {
                Ok(case) => w.run_case(&case),
                Err(_) => {
                    let (loc, msg) = take_panic();
                    if w.stats.harness_panics.len() < 4 {
                        w.stats.harness_panics.push(format!("generator panicked: {} at {}", msg, loc));
                    }
                }
            }
        }
        merged.lock().unwrap().merge(w.stats);
    };

    if threads == 1 || cfg.miri {
        body(0);
    } else {
        std::thread::scope(|s| {
            for wid in 0..threads {
                let body = &body;
                std::thread::Builder::new()
                    .stack_size(256 << 20)
                    .spawn_scoped(s, move || body(wid))
                    .expect("spawn");
            }
        });
    }
    let stats = merged.into_inner().unwrap();
    (stats, start.elapsed().as_secs_f64())
}

pub fn result_json(prop: &Prop, cfg: &RunCfg, stats: &Stats, wall: f64) -> J {
    let mut j = J::obj();
    j.put("property_id", J::s(prop.id));
    j.put("flavour", J::s(&cfg.flavour));
    j.put("tier", J::s(if cfg.thorough { "thorough" } else { "quick" }));
    j.put("seed", J::u64(cfg.seed));
    j.put("threads", J::u(cfg.threads));
    j.put("evaluations", J::u64(stats.evaluations));
    j.put("library_calls", J::u64(stats.calls));
    j.put("held", J::u64(stats.held));
    j.put("nontrivial", J::u64(stats.nontrivial));
    j.put("distinct_nontrivial", J::u(stats.sigs.len()));
    let mut sigs: Vec<u64> = stats.sigs.iter().copied().collect();
    sigs.sort();
    j.put("sigs", J::Arr(sigs.iter().map(|s| J::s(&format!("{:016x}", s))).collect()));
    j.put("skipped", J::Obj(stats.skipped.iter().map(|(k, v)| (k.clone(), J::u64(*v))).collect()));
    j.put("inconclusive", J::Obj(stats.inconclusive.iter().map(|(k, v)| (k.clone(), J::u64(*v))).collect()));
    let mut counters: Vec<(String, J)> = stats.counters.iter().map(|(k, v)| (k.clone(), J::u64(*v))).collect();
    counters.extend(stats.max_counters.iter().map(|(k, v)| (k.clone(), J::u64(*v))));
    j.put("counters", J::Obj(counters));
    j.put("violations_total", J::u64(stats.violations_total));
    j.put("known_total", J::Obj(stats.known_total.iter().map(|(k, v)| (k.clone(), J::u64(*v))).collect()));
    j.put(
        "violations",
        J::Arr(
            stats
                .violations
                .iter()
                .map(|v| {
                    J::obj()
                        .set("message", J::s(&v.msg))
                        .set("known", v.known.map(J::s).unwrap_or(J::Null))
                        .set("worker", J::u(v.worker))
                        .set("index", J::u64(v.index))
                        .set("case", v.case.to_json())
                })
                .collect(),
        ),
    );
    j.put("harness_panics", J::Arr(stats.harness_panics.iter().map(|s| J::s(s)).collect()));
    j.put("samples", J::Arr(stats.samples.clone()));
    j.put("exhaustive_subruns", J::Arr(stats.exhaustive_subruns.clone()));
    j.put("deadline_hit", J::Bool(stats.deadline_hit));
    let mut missing = Vec::new();
    for r in prop.required {
        let have = stats.counters.get(*r).copied().unwrap_or(0) + stats.max_counters.get(*r).copied().unwrap_or(0);
        if have == 0 {
            missing.push(J::s(r));
        }
    }
    j.put("required_missing", J::Arr(missing));
    j.put("required", J::Arr(prop.required.iter().map(|r| J::s(r)).collect()));
    j.put("rule", J::s(prop.rule));
    j.put("wall_s", J::Num(wall));
    j
}
