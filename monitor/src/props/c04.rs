//! C04 — public functions are total: no panic, hang or overflow error on any input.

use super::common::*;
use crate::case::{Algo, Case, Frag, OptSpec, Pen, Sep, Split};
use crate::gen::frag;
use crate::gen::opts::{self, OptDomain};
use crate::json::J;
use crate::rng::Rng;
use crate::run::{mark, Obs, Prop, RunCfg, Verdict, Worker};
use textwrap::core::Word;

const DOM: OptDomain = OptDomain {
    allow_custom_split: false,
    allow_optimal: true,
    allow_random_pen: true,
    hostile_pen: true,
    allow_indents: true,
    allow_unicode: true,
};

const GAPS: &[&str] = &["", " ", "|", " | ", "✨ ", "\u{1b}[", "\u{1b}", "你好", "\u{301}", "\r\n"];
const PREFIXES: &[&str] = &["", "  ", "# ", "\u{1b}[", "é", "\n", "\t> ", "\u{a0}"];

fn gen(r: &mut Rng, cfg: &RunCfg) -> Case {
    if r.chance(1, 4) {
        let mut c = Case::new(if r.coin() { "frag_usize" } else { "frag_f64" });
        let max = if cfg.miri { 12 } else { 40 };
        if c.sub == "frag_usize" {
            c.frags = frag::usize_frags(r, max);
            let big: &[usize] = &[usize::MAX, usize::MAX - 1, 0, 1, crate::rng::P53];
            c.lws = (0..r.below(4)).map(|_| (if r.chance(1, 3) { *r.pick(big) } else { r.below(40) }) as f64).collect();
        } else {
            c.frags = frag::hostile_frags(r, max, true);
            c.lws = frag::hostile_line_widths(r, true);
        }
        c.pen = Some(opts::penalties(r, true));
        return c;
    }
    // dirty sequences over-represented
    let mut text = gen_text(r, TextDomain::Any);
    if r.chance(1, 3) {
        let extra = *r.pick(crate::gen::text::DIRTY);
        let pos = {
            let mut p = r.below(text.len() + 1);
            while !text.is_char_boundary(p) {
                p -= 1;
            }
            p
        };
        text.insert_str(pos, extra);
    }
    if cfg.miri && text.len() > 60 {
        let mut cut = 60;
        while !text.is_char_boundary(cut) {
            cut -= 1;
        }
        text.truncate(cut);
    }
    let mut o = gen_opts(r, DOM, &text, false);
    if r.chance(1, 6) {
        o.ii = r.pick(GAPS).to_string();
    }
    if r.chance(1, 6) {
        o.si = r.pick(GAPS).to_string();
    }
    let cols = r.range(1, 16);
    let total = if text.len() <= 64 && r.chance(1, 6) {
        *r.pick(&[65534usize, 65535, 65536, 65537, 70000, 131072])
    } else if r.chance(1, 8) {
        r.range(0, 4096)
    } else {
        r.range(0, 80)
    };
    let limit = *r.pick(&[0usize, 1, 2, 3, 5, 8, 20, usize::MAX]);
    Case::new("text")
        .text(text)
        .text(*r.pick(GAPS))
        .text(*r.pick(GAPS))
        .text(*r.pick(GAPS))
        .text(*r.pick(PREFIXES))
        .opt(o)
        .num(cols)
        .num(total)
        .num(limit)
}

fn check_text(case: &Case, obs: &mut Obs) -> Verdict {
    let text = case.t(0);
    let o = case.o(0);
    if !o.available() {
        return Verdict::Skipped("options not available in this feature set");
    }
    let (cols, total, limit) = (case.nums[0], case.nums[1], case.nums[2]);
    let mut n = 0u64;
    mark("wrap");
    let lines = textwrap::wrap(text, o.build());
    n += 1;
    mark("fill");
    let filled = o.fill(text);
    n += 1;
    mark("fill_inplace");
    let mut s = text.to_string();
    textwrap::fill_inplace(&mut s, o.width);
    n += 1;
    mark("unfill");
    let _ = textwrap::unfill(text);
    let _ = textwrap::unfill(&filled);
    n += 2;
    mark("refill");
    let _ = o.refill(text);
    let _ = o.refill(&filled);
    n += 2;
    mark("indent");
    let ind = textwrap::indent(text, case.t(4));
    n += 1;
    mark("dedent");
    let _ = textwrap::dedent(text);
    let _ = textwrap::dedent(&ind);
    n += 2;
    mark("display_width");
    let _ = textwrap::core::display_width(text);
    n += 1;
    if cols >= 1 && cols <= 16 && (total <= 4096 || (total <= 200_000 && text.len() <= 64)) {
        mark("wrap_columns");
        let mut oc = o.clone();
        oc.width = total;
        let _ = oc.wrap_columns(text, cols, case.t(1), case.t(2), case.t(3));
        n += 1;
    }
    // building blocks, per paragraph
    let seps: &[Sep] = if cfg!(feature = "ulb") { &[Sep::Ascii, Sep::Unicode] } else { &[Sep::Ascii] };
    for para in text.split(o.le()).take(4) {
        for sep in seps {
            let mut os = OptSpec::new(0);
            os.sep = *sep;
            mark("find_words");
            let words: Vec<Word> = os.sep_build().find_words(para).collect();
            n += 1;
            for split in [Split::None, Split::Hyphen, Split::Custom] {
                os.split = split;
                let splitter = os.split_build();
                mark("split_points");
                for w in words.iter().take(8) {
                    let _ = splitter.split_points(w.word);
                    n += 1;
                }
                mark("split_words");
                let pieces: Vec<Word> = textwrap::word_splitters::split_words(words.clone(), &splitter).collect();
                n += 1;
                mark("break_words");
                let broken = textwrap::core::break_words(pieces.clone(), limit);
                n += 1;
                mark("break_apart");
                for w in pieces.iter().take(4) {
                    let _ = w.break_apart(limit).count();
                    n += 1;
                }
                if split == Split::Hyphen {
                    let lws_usize = [o.width, limit];
                    let lws: Vec<f64> = lws_usize.iter().map(|w| *w as f64).collect();
                    mark("wrap_first_fit");
                    let _ = textwrap::wrap_algorithms::wrap_first_fit(&broken, &lws);
                    n += 1;
                    #[cfg(feature = "smawk")]
                    {
                        if let Algo::Optimal(p) = o.algo {
                            mark("wrap_optimal_fit");
                            let r = textwrap::wrap_algorithms::wrap_optimal_fit(&broken, &lws, &p.build());
                            n += 1;
                            if r.is_err() {
                                obs.calls += n;
                                return Verdict::Violated(format!("wrap_optimal_fit returned an overflow error for usize-valued widths {:?} and penalties {:?}", lws_usize, p));
                            }
                        }
                    }
                    mark("WrapAlgorithm::wrap");
                    let _ = o.algo_build().wrap(&broken, &lws_usize);
                    n += 1;
                }
            }
        }
    }
    mark("");
    obs.calls += n;
    if obs.want_sample {
        obs.out = Some(J::obj().set("library_calls", J::u64(n)).set("wrap_lines", J::u(lines.len())));
    }
    let dirty = !crate::oracle::ansi::clean_ansi(text);
    if dirty {
        obs.bump("dirty_text");
    }
    if o.width >= usize::MAX - 1 {
        obs.bump("width_usize_max");
    }
    if o.width == 0 {
        obs.bump("width_zero");
    }
    if let Algo::Optimal(p) = o.algo {
        if [p.nline, p.overflow, p.frac, p.short, p.hyphen].iter().any(|v| *v >= (crate::rng::P53)) {
            obs.bump("huge_penalties");
        }
    }
    Verdict::held(
        !text.is_empty(),
        h(&[0, o.shape(), dirty as u64, bucket(lines.len()), bucket(o.width.min(100)), (o.width > crate::rng::P52) as u64, bucket(cols), !text.is_ascii() as u64]),
    )
}

fn check_frag(case: &Case, obs: &mut Obs) -> Verdict {
    let frags: &[Frag] = &case.frags;
    let lws = &case.lws;
    mark("wrap_first_fit");
    let a = textwrap::wrap_algorithms::wrap_first_fit(frags, lws);
    obs.calls += 1;
    #[allow(unused_assignments)]
    let mut err = false;
    #[cfg(feature = "smawk")]
    {
        let pen = case.pen.unwrap_or(Pen::DEFAULT);
        mark("wrap_optimal_fit");
        let r = textwrap::wrap_algorithms::wrap_optimal_fit(frags, lws, &pen.build());
        obs.calls += 1;
        err = r.is_err();
        if err && case.sub == "frag_usize" {
            return Verdict::Violated(format!("wrap_optimal_fit returned an overflow error although all widths and penalties are usize-valued (penalties {:?})", pen));
        }
    }
    #[cfg(not(feature = "smawk"))]
    {
        let _ = Pen::DEFAULT;
    }
    mark("");
    if err {
        obs.bump("overflow_error_on_f64_input_allowed");
    }
    let nonfinite = !super::c06::all_finite(frags, lws);
    if nonfinite {
        obs.bump("nonfinite_input");
    }
    if case.sub == "frag_usize" {
        obs.bump("usize_valued_fragments");
    }
    Verdict::held(!frags.is_empty(), h(&[1, (case.sub == "frag_usize") as u64, bucket(frags.len()), bucket(a.len()), nonfinite as u64, err as u64, lws.len() as u64]))
}

pub fn check(case: &Case, obs: &mut Obs) -> Verdict {
    if case.sub == "text" {
        check_text(case, obs)
    } else {
        check_frag(case, obs)
    }
}

fn extra(cfg: &RunCfg, w: &mut Worker) {
    if cfg.miri {
        return;
    }
    // exhaustive small strings x extreme widths
    let max = if cfg.thorough { 5 } else { 3 };
    let alphabet: &[&str] = &["a", " ", "-", "你", "\u{301}", "\u{1b}", "\u{1b}[", "\n", "\r"];
    let threads = cfg.threads.max(1);
    let mut idx = 0usize;
    let mut todo = Vec::new();
    crate::gen::text::enumerate_strings(alphabet, max, |s| {
        if idx % threads == w.id {
            todo.push(s.to_string());
        }
        idx += 1;
    });
    let mut n = 0u64;
    'outer: for s in todo {
        for width in [0usize, 1, 2, 3, usize::MAX] {
            for g in small_option_grid() {
                if g.split == Split::None {
                    continue;
                }
                if w.stopped() {
                    break 'outer;
                }
                let mut o = g.clone();
                o.width = width;
                if n % 3 == 0 {
                    o.ii = "\u{1b}[".to_string();
                    o.si = "你".to_string();
                }
                w.run_case(&Case::new("text").text(s.clone()).text("|").text("").text("é").text("# ").opt(o).num(1 + (n % 4) as usize).num((n % 9) as usize).num((n % 3) as usize));
                n += 1;
            }
        }
    }
    if w.id == 0 {
        w.note_exhaustive(
            "small-hostile-strings",
            &format!("all strings of <= {} tokens over {{a,' ','-',你,U+0301,ESC,ESC[,LF,CR}} x widths {{0,1,2,3,usize::MAX}} x option grid (hyphen splitter) (sharded; this worker ran {})", max, n),
            n * threads as u64,
        );
    }
    // stress: long inputs (time per byte is recorded, not judged)
    if cfg.thorough || w.id == 0 {
        let mut r = Rng::stream(cfg.seed, &["C04", "stress"], w.id as u64);
        let target = if cfg.thorough { 300_000 } else { 60_000 };
        let mut s = String::new();
        while s.len() < target {
            s.push_str(&gen_text(&mut r, TextDomain::Any));
            s.push(' ');
        }
        let mut o = opts::options(&mut r, DOM, 72);
        o.algo = if cfg!(feature = "smawk") { Algo::Optimal(Pen::DEFAULT) } else { Algo::FirstFit };
        let t0 = std::time::Instant::now();
        let len = s.len();
        w.run_case(&Case::new("text").text(s).text("").text(" ").text("").text("> ").opt(o).num(3).num(100).num(8));
        let ns_per_byte = t0.elapsed().as_nanos() as u64 / len.max(1) as u64;
        *w.stats.counters.entry("stress_texts".to_string()).or_insert(0) += 1;
        let e = w.stats.max_counters.entry("max_stress_ns_per_byte".to_string()).or_insert(0);
        if ns_per_byte > *e {
            *e = ns_per_byte;
        }
    }
}

pub fn prop() -> Prop {
    Prop {
        id: "C04",
        rule: "text call group (3/4): hostile text with dirty escape fragments over-represented, boundary widths incl. 0 and usize::MAX, all built-in option combinations, penalties from {0, 1, usize::MAX, usize::MAX-1, 2^53, 2^53+1, random}: wrap, fill, fill_inplace, unfill, refill, indent, dedent, display_width, wrap_columns (1..=16 columns, total width <= 4096, or up to 131072 for texts of <= 64 bytes), find_words, split_points, split_words, break_words, break_apart, wrap_first_fit, wrap_optimal_fit, WrapAlgorithm::wrap are each called and must return normally (optimal-fit: Ok). fragment group (1/4): usize-valued fragments (Ok required) and finite / non-finite f64 fragments (no panic; Err allowed). + exhaustive small hostile strings and long stress texts. A panic anywhere in the library is a violation. non-trivial = non-empty input; distinct = (group, option shape, dirty, line bucket, width bucket, huge width, columns, non-ASCII | usize-valued, non-finite, Err)",
        gen,
        check,
        panic_is_violation: true,
        budget: (360000, 12000000),
        extra: Some(extra),
        required: &["dirty_text", "width_usize_max", "width_zero", "huge_penalties", "usize_valued_fragments", "nonfinite_input"],
        known: None,
    }
}
