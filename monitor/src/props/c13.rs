//! C13 — ANSI colour codes do not change where lines break.

use super::common::*;
use crate::case::{Algo, Case, Pen, Sep, Split};
use crate::gen::opts::{self, OptDomain};
use crate::gen::text::{sgr_or_link, Class, Mix};
use crate::oracle::ansi::{clean_ansi, sequences, strip};
use crate::rng::Rng;
use crate::run::{Obs, Prop, RunCfg, Verdict};

const DOM: OptDomain = OptDomain {
    allow_custom_split: false,
    allow_optimal: true,
    allow_random_pen: false,
    hostile_pen: false,
    allow_indents: true,
    allow_unicode: true,
};

fn is_blank(c: Option<char>) -> bool {
    matches!(c, None | Some(' ') | Some('\n') | Some('\r'))
}

/// Insert sequences at character boundaries so that each touches a non-space
/// character and (if `avoid_hyphen`) does not touch a '-'.
fn colourise(r: &mut Rng, plain: &str, avoid_hyphen: bool) -> String {
    let chars: Vec<char> = plain.chars().collect();
    let mut out = String::new();
    let rate = r.range(1, 6);
    for i in 0..=chars.len() {
        let prev = if i > 0 { Some(chars[i - 1]) } else { None };
        let next = chars.get(i).copied();
        let touches_word = !is_blank(prev) || !is_blank(next);
        let touches_hyphen = prev == Some('-') || next == Some('-');
        if touches_word && !(avoid_hyphen && touches_hyphen) && r.below(12) < rate {
            out.push_str(&sgr_or_link(r));
            if r.chance(1, 6) {
                out.push_str(&sgr_or_link(r));
            }
        }
        if let Some(c) = next {
            out.push(c);
        }
    }
    out
}

fn gen(r: &mut Rng, _cfg: &RunCfg) -> Case {
    let m = Mix::swarm(r, &[Class::Ascii, Class::Wide, Class::Zero, Class::Punct, Class::Space, Class::Para, Class::Prefix, Class::Scalars, Class::Real, Class::Repeat]);
    let n = crate::gen::text::ntok(r).max(1);
    let plain = m.text(r, n);
    let width = if r.chance(1, 10) { r.range(26, 90) } else { r.range(0, 25) };
    let mut o = opts::options(r, DOM, width);
    if r.chance(3, 4) {
        o.ii.clear();
        o.si.clear();
    }
    if r.chance(1, 6) {
        o.algo = if cfg!(feature = "smawk") { Algo::Optimal(Pen::DEFAULT) } else { Algo::FirstFit };
    }
    let coloured = colourise(r, &plain, o.split == Split::Hyphen);
    Case::new("pair").text(plain).text(coloured).opt(o)
}

pub fn check(case: &Case, obs: &mut Obs) -> Verdict {
    let plain = case.t(0);
    let coloured = case.t(1);
    let o = case.o(0);
    if !o.available() {
        return Verdict::Skipped("options not available in this feature set");
    }
    if plain.contains('\u{1b}') || !clean_ansi(coloured) || strip(coloured) != plain {
        return Verdict::Skipped("generator precondition not met");
    }
    let built = o.build();
    let wp = if o.by_ref(plain) { textwrap::wrap(plain, &built) } else { textwrap::wrap(plain, o.build()) };
    let wc = if o.by_ref(coloured) { textwrap::wrap(coloured, &built) } else { textwrap::wrap(coloured, o.build()) };
    obs.calls += 2;
    if obs.want_sample {
        obs.out = Some(lines_json(&wc));
    }
    if wp.len() != wc.len() {
        return Verdict::Violated(format!("coloured text wraps to {} lines, plain text to {} lines: {:?} vs {:?}", wc.len(), wp.len(), wc, wp));
    }
    for i in 0..wp.len() {
        if strip(&wc[i]) != strip(&wp[i]) {
            return Verdict::Violated(format!("line {}: stripped coloured line {:?} != plain line {:?}", i, strip(&wc[i]), strip(&wp[i])));
        }
    }
    let joined: String = wc.iter().map(|l| l.as_ref()).collect::<Vec<&str>>().concat();
    let in_seqs = sequences(coloured);
    let mut want: Vec<&str> = Vec::new();
    // indents may themselves contain sequences; account for them per line
    let ii_seqs = sequences(&o.ii);
    let si_seqs = sequences(&o.si);
    let _ = (&ii_seqs, &si_seqs);
    want.extend(in_seqs.iter());
    let out_seqs_all = sequences(&joined);
    // remove the indents' own sequences from the output list
    let mut out_seqs: Vec<&str> = Vec::new();
    {
        let mut per_line: Vec<&str> = Vec::new();
        for (i, l) in wc.iter().enumerate() {
            let ind: &str = if i == 0 { &o.ii } else { &o.si };
            let body = l.strip_prefix(ind).unwrap_or(l);
            per_line.extend(sequences(body));
        }
        out_seqs.extend(per_line);
    }
    let _ = out_seqs_all;
    if out_seqs != want {
        return Verdict::Violated(format!("escape sequences in the output {:?} differ from those in the input {:?}", out_seqs, want));
    }
    let nseq = in_seqs.len();
    if nseq > 0 && wp.len() >= 2 {
        obs.bump("coloured_multi_line");
    }
    let forced = o.bw && wp.len() >= 2 && plain.split(|c| c == ' ' || c == '\n').any(|w| textwrap::core::display_width(w) > o.width.max(1));
    if forced && nseq > 0 {
        obs.bump("coloured_forced_break");
    }
    if coloured.len() >= o.width && plain.len() < o.width {
        obs.bump("fast_vs_slow_path");
    }
    Verdict::held(
        nseq > 0 && wp.len() >= 2,
        h(&[o.shape(), bucket(wp.len()), bucket(nseq), forced as u64, (o.sep == Sep::Unicode) as u64]),
    )
}

/// KF-2: the hyphen splitter cuts inside a hyperlink whose URL contains a hyphen.
pub fn known(case: &Case, _msg: &str) -> Option<&'static str> {
    let o = case.o(0);
    if o.split == Split::Hyphen && crate::oracle::words::hyphen_point_inside_sequence(case.t(1)) {
        // attributable to the hyphen splitter: the same case holds without it
        let mut c2 = case.clone();
        c2.opts[0].split = Split::None;
        let mut obs = Obs::default();
        if matches!(check(&c2, &mut obs), Verdict::Held { .. }) {
            return Some("KF-2");
        }
    }
    None
}

pub fn prop() -> Prop {
    Prop {
        id: "C13",
        rule: "cases = plain multi-paragraph text + the same text with SGR/hyperlink sequences inserted at character boundaries (each touching a non-space character, none touching '-' under the hyphen splitter); widths mostly 0..=25, both separators, both algorithms, break_words on/off; the two wrap results are compared line by line after stripping and the sequence list is compared; non-trivial = >= 1 sequence and >= 2 lines; distinct = (option shape, line-count bucket, sequence-count bucket, forced break, separator)",
        gen,
        check,
        panic_is_violation: false,
        budget: (1500000, 48000000),
        extra: None,
        required: &["coloured_multi_line", "coloured_forced_break", "fast_vs_slow_path"],
        known: Some(known),
    }
}
