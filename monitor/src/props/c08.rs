//! C08 — every output line carries the configured indent; what follows the
//! indent depends only on the indents' display widths and emptiness.

use super::common::*;
use crate::case::Case;
use crate::gen::opts::{self, OptDomain};
use crate::oracle::width::ref_width;
use crate::rng::Rng;
use crate::run::{Obs, Prop, RunCfg, Verdict, Worker};

const POOL: &[&[&str]] = &[
    opts::INDENTS_W0_NONEMPTY,
    opts::INDENTS_W1,
    opts::INDENTS_W2,
    opts::INDENTS_W4,
    opts::INDENTS_W10,
];

/// Another indent with the same reference width and emptiness.
fn twin(r: &mut Rng, a: &str) -> String {
    if a.is_empty() {
        return String::new();
    }
    let w = ref_width(a);
    let mut cands: Vec<&str> = Vec::new();
    for fam in POOL {
        for s in fam.iter() {
            if ref_width(s) == w && *s != a {
                cands.push(s);
            }
        }
    }
    if cands.is_empty() {
        a.to_string()
    } else {
        r.pick(&cands).to_string()
    }
}

fn gen(r: &mut Rng, _cfg: &RunCfg) -> Case {
    let mut text = gen_text(r, TextDomain::Any);
    // texts rich in empty and whitespace-only paragraphs
    if r.chance(1, 3) {
        let brk = if r.coin() { "\n" } else { "\r\n" };
        let filler = *r.pick(&["", " ", "   ", "", ""]);
        text = match r.below(4) {
            0 => format!("{}{}{}", brk, filler, text),
            1 => format!("{}{}{}{}", text, brk, filler, brk),
            2 => format!("{}{}{}{}{}", text, brk, filler, brk, gen_line(r, TextDomain::Any)),
            _ => format!("{}{}{}{}", filler, brk, brk, text),
        };
    }
    let mut o = gen_opts(r, OptDomain::ALL, &text, false);
    if o.ii.is_empty() && o.si.is_empty() && r.chance(3, 4) {
        o.ii = opts::indent(r);
        o.si = opts::indent(r);
    }
    if r.coin() {
        let mut o2 = o.clone();
        o2.ii = twin(r, &o.ii);
        o2.si = twin(r, &o.si);
        Case::new("pair").text(text).opt(o).opt(o2)
    } else {
        let sub = match r.below(8) {
            0..=1 => "prefix_fill",
            2 => "prefix_custom_algorithm",
            _ => "prefix",
        };
        Case::new(sub).text(text).opt(o)
    }
}

/// A user-supplied wrap algorithm that emits an empty first line ("top
/// margin") followed by the first-fit lines: every line, also the one built
/// from an empty slice, must carry its indent.
fn top_margin<'a, 'b>(words: &'b [textwrap::core::Word<'a>], line_widths: &'b [usize]) -> Vec<&'b [textwrap::core::Word<'a>]> {
    let f: Vec<f64> = line_widths.iter().map(|w| *w as f64).collect();
    let mut v = vec![&words[0..0]];
    v.extend(textwrap::wrap_algorithms::wrap_first_fit(words, &f));
    v
}

fn check_prefix<S: AsRef<str>>(lines: &[S], ii: &str, si: &str) -> Result<(), String> {
    for (i, l) in lines.iter().enumerate() {
        let ind = if i == 0 { ii } else { si };
        if !l.as_ref().starts_with(ind) {
            return Err(format!("line {} {:?} does not start with {} indent {:?}", i, l.as_ref(), if i == 0 { "initial" } else { "subsequent" }, ind));
        }
    }
    Ok(())
}

pub fn check(case: &Case, obs: &mut Obs) -> Verdict {
    let text = case.t(0);
    let o = case.o(0);
    if !o.available() {
        return Verdict::Skipped("options not available in this feature set");
    }
    let paras = text.split(o.le()).count();
    let empty_paras = text.split(o.le()).filter(|p| p.trim_matches(' ').is_empty()).count();
    match case.sub.as_str() {
        "prefix" | "prefix_fill" | "prefix_custom_algorithm" => {
            let lines: Vec<String> = if case.sub == "prefix" {
                o.wrap_owned(text)
            } else if case.sub == "prefix_custom_algorithm" {
                obs.bump("custom_algorithm_with_empty_slice");
                let opts = o.build().wrap_algorithm(textwrap::WrapAlgorithm::Custom(top_margin));
                textwrap::wrap(text, opts).into_iter().map(|c| c.into_owned()).collect()
            } else {
                o.fill(text).split(o.le()).map(|s| s.to_string()).collect()
            };
            obs.calls += 1;
            if let Err(e) = check_prefix(&lines, &o.ii, &o.si) {
                return Verdict::Violated(e);
            }
            let nontrivial = lines.len() >= 2 && !(o.ii.is_empty() && o.si.is_empty());
            if nontrivial {
                obs.bump("indented_multi_line");
            }
            if empty_paras > 0 && (!o.si.is_empty() || !o.ii.is_empty()) {
                obs.bump("empty_paragraph_with_indent");
            }
            if obs.want_sample {
                obs.out = Some(strs_json(&lines));
            }
            Verdict::held(nontrivial, h(&[0, o.shape(), bucket(lines.len()), bucket(paras), (empty_paras > 0) as u64]))
        }
        _ => {
            let o2 = case.o(1);
            let a = textwrap::wrap(text, o.build());
            let b = textwrap::wrap(text, o2.build());
            obs.calls += 2;
            if let Err(e) = check_prefix(&a, &o.ii, &o.si) {
                return Verdict::Violated(e);
            }
            if let Err(e) = check_prefix(&b, &o2.ii, &o2.si) {
                return Verdict::Violated(e);
            }
            if a.len() != b.len() {
                return Verdict::Violated(format!(
                    "same-width indents {:?}/{:?} vs {:?}/{:?} give {} vs {} lines",
                    o.ii, o.si, o2.ii, o2.si, a.len(), b.len()
                ));
            }
            for i in 0..a.len() {
                let ra = &a[i][if i == 0 { o.ii.len() } else { o.si.len() }..];
                let rb = &b[i][if i == 0 { o2.ii.len() } else { o2.si.len() }..];
                if ra != rb {
                    return Verdict::Violated(format!(
                        "line {} differs after the indent for same-width indents: {:?} vs {:?}",
                        i, ra, rb
                    ));
                }
            }
            let differ = o.ii != o2.ii || o.si != o2.si;
            if differ && a.len() >= 2 {
                obs.bump("pair_multi_line");
            }
            if obs.want_sample {
                obs.out = Some(lines_json(&a));
            }
            Verdict::held(differ && a.len() >= 2, h(&[1, o.shape(), bucket(a.len()), ref_width(&o.ii) as u64, ref_width(&o.si) as u64]))
        }
    }
}

fn extra(cfg: &RunCfg, w: &mut Worker) {
    // empty-paragraph matrix: every arrangement of up to 4 paragraphs from
    // {"", " ", "a", "a b"} x both line endings x option grid x indents
    let paras = ["", " ", "aa", "aa bb"];
    let grid = small_option_grid();
    let mut n = 0u64;
    let mut idx = 0usize;
    for count in 1..=4usize {
        for code in 0..paras.len().pow(count as u32) {
            for crlf in [false, true] {
                idx += 1;
                if idx % cfg.threads.max(1) != w.id {
                    continue;
                }
                let mut c = code;
                let mut parts = Vec::new();
                for _ in 0..count {
                    parts.push(paras[c % paras.len()]);
                    c /= paras.len();
                }
                let text = parts.join(if crlf { "\r\n" } else { "\n" });
                for g in &grid {
                    for (ii, si) in [("", "| "), ("> ", ""), ("* ", "  ")] {
                        for width in [0usize, 3, 80] {
                            let mut o = g.clone();
                            o.width = width;
                            o.crlf = crlf;
                            o.ii = ii.to_string();
                            o.si = si.to_string();
                            w.run_case(&Case::new("prefix").text(text.clone()).opt(o));
                            n += 1;
                        }
                    }
                }
            }
        }
    }
    if w.id == 0 {
        w.note_exhaustive(
            "empty-paragraph-matrix",
            "all sequences of 1..=4 paragraphs from {\"\", \" \", \"aa\", \"aa bb\"} x LF/CRLF x option grid x 3 indent pairs x widths {0,3,80} (sharded)",
            n * cfg.threads.max(1) as u64,
        );
    }
}

pub fn prop() -> Prop {
    Prop {
        id: "C08",
        rule: "cases = (text rich in empty / whitespace-only paragraphs, options with indents) for wrap and fill (prefix test; 1/8 of the prefix cases use a custom wrap algorithm that emits an empty slice before the first-fit lines) and pairs of option sets differing only in the characters of same-width indents (metamorphic); non-trivial = >= 2 output lines with a non-empty indent (prefix) or differing indent strings with >= 2 lines (pair); distinct = (option shape, line-count bucket, paragraph bucket, empty paragraph present | indent widths)",
        gen,
        check,
        panic_is_violation: false,
        budget: (1200000, 30000000),
        extra: Some(extra),
        required: &["custom_algorithm_with_empty_slice", "indented_multi_line", "empty_paragraph_with_indent", "pair_multi_line"],
        known: None,
    }
}
