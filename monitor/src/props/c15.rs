//! C15 — unfill inverts fill and recovers indents, width and line ending.

use super::common::*;
use crate::case::{Algo, Case, OptSpec, Pen, Sep, Split};
use crate::gen::text::{Class, Mix, PREFIX_CHARS};
use crate::json::J;
use crate::rng::Rng;
use crate::run::{Obs, Prop, RunCfg, Verdict};
use textwrap::LineEnding;

pub const VOCAB: &[&str] = &[
    "a", "I", "to", "be", "or", "not", "foo", "bar", "baz", "wrap", "text", "line", "hello", "world!", "Lorem", "ipsum", "question",
    "unfortunately", "café", "naïve", "über", "你好", "世界", "日本語", "😂", "e-mail", "tic-tac-toe", "a/b", "don't", "x-y", "3.14", "1,5",
    "(paren)", "end.", "yes?", "a#b", "c>d", "x*", "y+", "q/", "é", "ß", "Ｈ", "ᄀ", ",bar", ".x", ";s", ":c", "=x", "~t", "_u", "@h", "&and", "!x", "%p", "$5", "^c",
    "|p", "\\b", "'q", "\"d", "<l", "[b", "]b", "{c", "}c", "`t", "?w", ")r", "state-of-the-art", "well-known", "self-contained",
    // structure of real documents: suspended hyphens, URLs ending in a slash, list markers, words ending in prefix
    // characters, markdown, dates, versions, emoji sequences
    "pre-", "two-", "left-", "and", "post-processing", "https://crates.io/", "https://docs.rs/textwrap/", "http://x.org/a/", "ftp://h/",
    "1.", "2.", "12)", "10.", "(a)", "C++", "C#", "=>", "<br>", "100%", "docs/", "e.g.", "i.e.", "[link](https://example.com/)", "`code`", "key:",
    "2024-01-15", "0.16.2", "x86_64-unknown-linux-gnu", "user@example.com", "\u{26a0}\u{fe0f}", "\u{1f44d}\u{1f3fd}", "a-", "b+", "c*", "d>", "e#",
];

/// Words that often open a real paragraph: numbered-list and other markers (none begins with a prefix character).
pub const OPENERS: &[&str] = &["1.", "2.", "3.", "12)", "10.", "(1)", "a)", "Note:", "TODO:", "Q:", "[1]"];

pub fn gen_paragraph(r: &mut Rng) -> String {
    let n = r.range(1, 12);
    let mut s = String::new();
    for k in 0..n {
        if k > 0 {
            s.push(' ');
        }
        if k == 0 && r.chance(1, 8) {
            s.push_str(*r.pick(OPENERS));
        } else {
            s.push_str(*r.pick(VOCAB));
        }
    }
    s
}

pub fn gen_prefix_indent(r: &mut Rng) -> String {
    let n = r.below(4);
    let mut s = String::new();
    for _ in 0..n {
        s.push(*r.pick(PREFIX_CHARS));
    }
    s
}

pub fn gen_fill_opts(r: &mut Rng) -> OptSpec {
    let mut o = OptSpec::new(r.range(0, 30));
    o.ii = gen_prefix_indent(r);
    o.si = gen_prefix_indent(r);
    o.crlf = r.coin();
    o.sep = Sep::Ascii;
    o.split = Split::None;
    o.bw = false;
    o.algo = if cfg!(feature = "smawk") && r.coin() {
        if r.coin() { Algo::Optimal(Pen::DEFAULT) } else { Algo::Optimal(crate::gen::opts::penalties(r, false)) }
    } else {
        Algo::FirstFit
    };
    o
}

fn gen(r: &mut Rng, _cfg: &RunCfg) -> Case {
    if r.chance(2, 3) {
        let p = gen_paragraph(r);
        let o = gen_fill_opts(r);
        Case::new("roundtrip").text(p).opt(o).num(r.coin() as usize)
    } else {
        // structural half: arbitrary strings heavy in line endings, CR and prefix characters
        let m = Mix::swarm(r, &[Class::Ascii, Class::Wide, Class::Zero, Class::Punct, Class::Space, Class::Para, Class::Prefix, Class::Clean, Class::Dirty, Class::Scalars, Class::Real, Class::RealStyled]);
        let mut s = String::new();
        for _ in 0..r.range(0, 10) {
            match r.below(8) {
                0..=1 => s.push_str(if r.coin() { "\n" } else { "\r\n" }),
                2 => s.push('\r'),
                3..=4 => {
                    for _ in 0..r.range(1, 4) {
                        s.push(*r.pick(PREFIX_CHARS));
                    }
                }
                _ => {
                    let t = m.token(r);
                    s.push_str(&t);
                    if r.coin() {
                        s.push(' ');
                    }
                }
            }
        }
        Case::new("structural").text(s)
    }
}

fn is_prefix_only(s: &str) -> bool {
    s.chars().all(|c| PREFIX_CHARS.contains(&c))
}

pub fn check(case: &Case, obs: &mut Obs) -> Verdict {
    match case.sub.as_str() {
        "roundtrip" => {
            let p = case.t(0);
            let o = case.o(0);
            if !o.available() {
                return Verdict::Skipped("options not available in this feature set");
            }
            let le = o.le();
            let mut filled = o.fill(p);
            let lines: Vec<String> = filled.split(le).map(|s| s.to_string()).collect();
            let trailing = case.nums[0] == 1;
            if trailing {
                filled.push_str(le);
            }
            let (text, uo) = textwrap::unfill(&filled);
            obs.calls += 2;
            if obs.want_sample {
                obs.out = Some(J::obj().set("filled", J::s(&filled)).set("unfilled", J::s(&text)));
            }
            let want_text = if trailing { format!("{}{}", p, le) } else { p.to_string() };
            if text != want_text {
                return Verdict::Violated(format!("unfill(fill(p)) = {:?}, expected {:?} (filled: {:?})", text, want_text, filled));
            }
            if uo.initial_indent != o.ii {
                return Verdict::Violated(format!("initial indent {:?}, expected {:?} (filled: {:?})", uo.initial_indent, o.ii, filled));
            }
            let want_w = lines.iter().map(|l| textwrap::core::display_width(l)).max().unwrap_or(0);
            if uo.width != want_w {
                return Verdict::Violated(format!("width {} != widest line {} (filled: {:?})", uo.width, want_w, filled));
            }
            if lines.len() >= 2 {
                if uo.subsequent_indent != o.si {
                    return Verdict::Violated(format!("subsequent indent {:?}, expected {:?} (filled: {:?})", uo.subsequent_indent, o.si, filled));
                }
                let want_le = if o.crlf { LineEnding::CRLF } else { LineEnding::LF };
                if uo.line_ending != want_le {
                    return Verdict::Violated(format!("line ending {:?}, expected {:?} (filled: {:?})", uo.line_ending, want_le, filled));
                }
                obs.bump("multi_line_roundtrip");
                if o.crlf {
                    obs.bump("crlf_roundtrip");
                }
                if !o.si.is_empty() {
                    obs.bump("subsequent_indent_recovered");
                }
            }
            if trailing {
                obs.bump("trailing_ending");
            }
            Verdict::held(lines.len() >= 2, h(&[0, o.shape(), bucket(lines.len()), trailing as u64, o.ii.len() as u64, o.si.len() as u64]))
        }
        _ => {
            let s = case.t(0);
            let (text, uo) = textwrap::unfill(s);
            obs.calls += 1;
            let lines: Vec<&str> = s.lines().collect();
            // "prefixes of the lines they describe": the initial indent describes the first line, the subsequent
            // indent the later ones. Empty lines carry no indentation; whether the *first* line means the first
            // line of the input or the first line with content is not said, so both readings are admitted.
            let describes = |ls: &[&str]| -> Result<(), String> {
                if let Some(first) = ls.first() {
                    if !first.starts_with(uo.initial_indent) {
                        return Err(format!("initial indent {:?} is not a prefix of the first line {:?}", uo.initial_indent, first));
                    }
                } else if !uo.initial_indent.is_empty() {
                    return Err(format!("initial indent {:?} for input without lines", uo.initial_indent));
                }
                for l in ls.iter().skip(1) {
                    if !l.is_empty() && !l.starts_with(uo.subsequent_indent) {
                        return Err(format!("subsequent indent {:?} is not a prefix of line {:?}", uo.subsequent_indent, l));
                    }
                }
                Ok(())
            };
            if let Err(e) = describes(&lines) {
                let non_empty: Vec<&str> = lines.iter().copied().filter(|l| !l.is_empty()).collect();
                if non_empty.len() == lines.len() || describes(&non_empty).is_err() {
                    return Verdict::Violated(e);
                }
                obs.bump("indents_describe_non_empty_lines");
            }
            if !is_prefix_only(uo.initial_indent) || !is_prefix_only(uo.subsequent_indent) {
                return Verdict::Violated(format!("indents {:?} / {:?} contain non-prefix characters", uo.initial_indent, uo.subsequent_indent));
            }
            let body = text.strip_suffix("\r\n").or_else(|| text.strip_suffix('\n')).unwrap_or(&text);
            if body.contains('\n') {
                return Verdict::Violated(format!("unfilled text {:?} contains an interior line break", text));
            }
            // line-ending rule for input without empty lines
            let mut no_empty = true;
            let mut n_endings = 0;
            let mut all_crlf = true;
            let mut start = 0;
            for (i, b) in s.bytes().enumerate() {
                if b == b'\n' {
                    let mut line = &s[start..i];
                    if line.ends_with('\r') {
                        line = &line[..line.len() - 1];
                    } else {
                        all_crlf = false;
                    }
                    if line.is_empty() {
                        no_empty = false;
                    }
                    n_endings += 1;
                    start = i + 1;
                }
            }
            if no_empty {
                let want = if n_endings >= 1 && all_crlf { LineEnding::CRLF } else { LineEnding::LF };
                if uo.line_ending != want {
                    return Verdict::Violated(format!("line ending {:?} reported for {:?}, expected {:?}", uo.line_ending, s, want));
                }
                obs.bump("line_ending_rule_checked");
                if want == LineEnding::CRLF {
                    obs.bump("crlf_detected");
                }
            }
            if lines.len() >= 2 {
                obs.bump("structural_multi_line");
            }
            Verdict::held(lines.len() >= 2, h(&[1, bucket(lines.len()), no_empty as u64, all_crlf as u64, uo.initial_indent.len() as u64, uo.subsequent_indent.len() as u64]))
        }
    }
}

pub fn prop() -> Prop {
    Prop {
        id: "C15",
        rule: "round trip (2/3): paragraph of 1..12 vocabulary words (none starting with a prefix character; multi-byte, wide and punctuated words included) filled at width 0..=30 with indents of 0..3 prefix characters, either algorithm, LF/CRLF, ASCII separator / no hyphenation / break_words off, with or without trailing line ending, then unfill: text, initial indent, width and (>= 2 lines) subsequent indent and line ending are compared with what the generator knows. structural (1/3): arbitrary strings heavy in line endings, CR and prefix characters. non-trivial = >= 2 lines; distinct = (sub-check, option shape, line-count bucket, trailing ending, indent lengths | empty-line-free, all-CRLF)",
        gen,
        check,
        panic_is_violation: false,
        budget: (1800000, 48000000),
        extra: None,
        required: &["multi_line_roundtrip", "crlf_roundtrip", "subsequent_indent_recovered", "trailing_ending", "line_ending_rule_checked", "crlf_detected", "structural_multi_line"],
        known: None,
    }
}
