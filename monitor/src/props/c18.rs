//! C18 — dedent removes exactly the longest common whitespace margin.

use super::common::*;
use crate::case::Case;
use crate::json::J;
use crate::rng::Rng;
use crate::run::{Obs, Prop, RunCfg, Verdict, Worker};

const WS: &[&str] = &[" ", " ", " ", "\t", "\u{a0}", "\u{3000}", "  ", "    ", "\t\t", "\u{2003}", "\u{b}", "\u{c}", "\u{85}", "\u{2002}", "\u{2009}", "\u{200a}", "\u{2000}", "\u{1680}", "\u{205f}", "\u{202f}", " \t", "\t "];
const WORDS: &[&str] = &["foo", "bar baz", "x", "é", "你好", "- item", "a  b", "end \t", "#", "fn main() {", "}",
    // invisible characters that are NOT whitespace: a line made of them is not blank
    "\u{1b}", "\0", "\u{7}", "\u{1c}", "\u{1f}", "\u{7f}", "\u{200b}", "\u{feff}", "\u{180e}", "\u{2060}", "\u{ad}", "\u{1b}[0m"];

fn gen_ws(r: &mut Rng, max: usize) -> String {
    let mut s = String::new();
    for _ in 0..r.below(max + 1) {
        s.push_str(*r.pick(WS));
    }
    s
}

fn gen(r: &mut Rng, _cfg: &RunCfg) -> Case {
    let n = r.range(0, 6);
    let margin = gen_ws(r, 3);
    let mut s = String::new();
    let crlf = r.chance(1, 4);
    for k in 0..n {
        match r.below(10) {
            0 => {} // empty line
            1 => s.push_str(&margin[..margin.char_indices().nth(r.below(margin.chars().count() + 1)).map(|(i, _)| i).unwrap_or(margin.len())]), // prefix of the margin
            2 => s.push_str(&gen_ws(r, 3)), // different whitespace
            3 => {
                s.push_str(&margin);
                s.push_str(&gen_ws(r, 2)); // longer than the margin
            }
            4 => {
                // line whose indentation differs from the margin
                s.push_str(&gen_ws(r, 3));
                s.push_str(*r.pick(WORDS));
            }
            _ => {
                s.push_str(&margin);
                if r.chance(1, 3) {
                    s.push_str(&gen_ws(r, 2));
                }
                s.push_str(*r.pick(WORDS));
            }
        }
        if k + 1 < n || r.coin() {
            if crlf && r.chance(3, 4) {
                s.push_str("\r\n");
            } else {
                s.push('\n');
            }
        }
    }
    if r.chance(1, 20) {
        s.push('\r');
    }
    match r.below(4) {
        0 => {
            let p = gen_ws(r, 2);
            Case::new("indent_dedent").text(s).text(p)
        }
        _ => Case::new("model").text(s),
    }
}

/// Reference model written from the statement.
pub fn ref_dedent(s: &str) -> String {
    let lines: Vec<&str> = s.lines().collect();
    let nonblank = |l: &str| l.chars().any(|c| !c.is_whitespace());
    let lead = |l: &str| -> String { l.chars().take_while(|c| c.is_whitespace()).collect() };
    let mut margin: Option<Vec<char>> = None;
    for l in lines.iter().filter(|l| nonblank(l)) {
        let lw: Vec<char> = lead(l).chars().collect();
        margin = Some(match margin {
            None => lw,
            Some(m) => m.iter().zip(lw.iter()).take_while(|(a, b)| a == b).map(|(a, _)| *a).collect(),
        });
    }
    let m: String = margin.unwrap_or_default().into_iter().collect();
    let mut out = String::new();
    for l in &lines {
        if nonblank(l) {
            out.push_str(&l[m.len()..]);
        }
        out.push('\n');
    }
    if !s.ends_with('\n') && out.ends_with('\n') {
        out.pop();
    }
    out
}

pub fn check(case: &Case, obs: &mut Obs) -> Verdict {
    let s = case.t(0);
    let got = textwrap::dedent(s);
    obs.calls += 1;
    if obs.want_sample {
        obs.out = Some(J::s(&got));
    }
    let want = ref_dedent(s);
    // the statement fixes line contents, number of lines and presence of a final newline, not the kind of line
    // terminator: compare line by line (str::lines accepts LF and CRLF) plus newline count and final newline
    let same_lines = got.lines().eq(want.lines());
    if !same_lines || got.matches('\n').count() != want.matches('\n').count() || got.ends_with('\n') != want.ends_with('\n') {
        return Verdict::Violated(format!("dedent({:?}) = {:?}, expected (up to the kind of line terminator) {:?}", s, got, want));
    }
    let has_cr = s.contains('\r');
    if !has_cr {
        let again = textwrap::dedent(&got);
        obs.calls += 1;
        if again != got {
            return Verdict::Violated(format!("dedent is not idempotent on {:?}: {:?} then {:?}", s, got, again));
        }
        obs.bump("idempotence_checked");
    }
    if case.sub == "indent_dedent" && !has_cr {
        let p = case.t(1);
        if p.chars().all(|c| c.is_whitespace()) {
            let ind = textwrap::indent(s, p);
            let d = textwrap::dedent(&ind);
            obs.calls += 2;
            if !d.lines().eq(got.lines()) || d.ends_with('\n') != got.ends_with('\n') {
                return Verdict::Violated(format!("dedent(indent(s, {:?})) = {:?} != dedent(s) = {:?} for s = {:?}", p, d, got, s));
            }
            obs.bump("indent_dedent_checked");
        }
    }
    let nlines = s.lines().count();
    let removed = s.len() - got.len();
    let blank_lines = s.lines().filter(|l| !l.is_empty() && l.chars().all(|c| c.is_whitespace())).count();
    if removed > 0 && nlines >= 2 {
        obs.bump("margin_removed_multi_line");
    }
    if blank_lines > 0 && nlines >= 2 {
        obs.bump("whitespace_only_line");
    }
    if has_cr {
        obs.bump("with_cr");
    }
    Verdict::held(
        nlines >= 2 && removed > 0,
        h(&[bucket(nlines), bucket(removed), blank_lines.min(3) as u64, has_cr as u64, s.ends_with('\n') as u64, s.contains('\t') as u64]),
    )
}

fn extra(cfg: &RunCfg, w: &mut Worker) {
    // exhaustive: up to 3 lines, each from a small set of shapes
    let shapes: &[&str] = &["", " ", "\t", "  ", " \t", "a", " a", "\ta", "  a", " \ta", "   ", " a "];
    let threads = cfg.threads.max(1);
    let mut idx = 0usize;
    let mut n = 0u64;
    let max_lines = if cfg.thorough { 4 } else { 3 };
    for nl in 1..=max_lines {
        let total = shapes.len().pow(nl as u32);
        for code in 0..total {
            idx += 1;
            if idx % threads != w.id {
                continue;
            }
            if w.stopped() {
                return;
            }
            let mut c = code;
            let mut parts = Vec::new();
            for _ in 0..nl {
                parts.push(shapes[c % shapes.len()]);
                c /= shapes.len();
            }
            for (sep, fin) in [("\n", ""), ("\n", "\n"), ("\r\n", "\r\n")] {
                let s = format!("{}{}", parts.join(sep), fin);
                w.run_case(&Case::new("model").text(s));
                n += 1;
            }
        }
    }
    if w.id == 0 {
        w.note_exhaustive(
            "line-shapes",
            &format!("all texts of 1..={} lines, each line from 12 margin/content shapes, x (LF no final newline, LF final newline, CRLF) (sharded; this worker ran {})", max_lines, n),
            n * threads as u64,
        );
    }
}

pub fn prop() -> Prop {
    Prop {
        id: "C18",
        rule: "cases = texts of 0..6 lines with a random whitespace margin (space, TAB, NBSP, U+3000, VT, FF, NEL, and the U+2000..U+200A / U+1680 / U+202F / U+205F spaces, several of which share leading UTF-8 bytes), whitespace-only lines of every shape (prefix of the margin, different whitespace, longer than the margin), lines with deviating indentation, LF / CRLF, with / without final newline, + exhaustive line shapes; dedent is compared with a reference model written from the statement, idempotence and dedent(indent(s,p)) == dedent(s) are checked on CR-free inputs; non-trivial = >= 2 lines and a non-empty margin was removed; distinct = (line bucket, removed-bytes bucket, whitespace-only lines, CR, final newline, TAB)",
        gen,
        check,
        panic_is_violation: false,
        budget: (1800000, 60000000),
        extra: Some(extra),
        required: &["margin_removed_multi_line", "whitespace_only_line", "idempotence_checked", "indent_dedent_checked", "with_cr"],
        known: None,
    }
}
