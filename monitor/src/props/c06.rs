//! C06 — both line-breaking algorithms return an ordered partition of the fragments.

use super::common::*;
use crate::case::{Case, Frag, Pen};
use crate::gen::frag::{self, Scale};
use crate::gen::opts;
use crate::json::J;
use crate::rng::Rng;
use crate::run::{Obs, Prop, RunCfg, Verdict, Worker};

fn gen(r: &mut Rng, _cfg: &RunCfg) -> Case {
    if r.chance(1, 6) {
        // through WrapAlgorithm::wrap(&[Word], &[usize]) with up to 12 listed widths
        let mut c = Case::new(if r.coin() { "algo_first_fit" } else { "algo_optimal_fit" });
        c.frags = frag::finite_frags(r, Scale::Small, 60, false);
        for f in c.frags.iter_mut() {
            f.ws = f.ws.min(8.0);
            f.pw = f.pw.min(1.0);
        }
        let max = if r.coin() { 12 } else { 3 };
        c.lws = frag::line_widths(r, Scale::Small, max, &c.frags);
        c.pen = Some(opts::penalties(r, false));
        return c;
    }
    let mut c = Case::new(if r.coin() { "frag_first_fit" } else { "frag_optimal_fit" });
    match r.below(6) {
        0 => {
            c.frags = frag::finite_frags(r, Scale::Small, 60, false);
            c.lws = frag::line_widths(r, Scale::Small, 3, &c.frags);
        }
        1 => {
            c.frags = frag::finite_frags(r, Scale::Dyadic, 60, false);
            c.lws = frag::line_widths(r, Scale::Dyadic, 3, &c.frags);
        }
        2 => {
            c.frags = frag::finite_frags(r, Scale::Large, 60, false);
            c.lws = frag::line_widths(r, Scale::Large, 3, &c.frags);
        }
        3 => {
            // non-finite values: outside the statement, monitored for information only
            c.frags = frag::hostile_frags(r, 40, true);
            c.lws = frag::hostile_line_widths(r, true);
        }
        _ => {
            c.frags = frag::hostile_frags(r, 60, false);
            c.lws = frag::hostile_line_widths(r, false);
        }
    }
    c.pen = Some(opts::penalties(r, true));
    c
}

/// Partition check by pointer and length.
pub fn check_partition(frags: &[Frag], lines: &[&[Frag]]) -> Result<Vec<usize>, String> {
    if frags.is_empty() {
        if lines.len() == 1 && lines[0].is_empty() {
            return Ok(vec![0]);
        }
        return Err(format!("empty input must give exactly one empty line, got {} lines", lines.len()));
    }
    let mut pos = 0usize;
    let mut parts = Vec::with_capacity(lines.len());
    for (k, l) in lines.iter().enumerate() {
        if l.is_empty() {
            return Err(format!("line {} is empty", k));
        }
        if pos >= frags.len() || l.as_ptr() != frags[pos..].as_ptr() {
            return Err(format!("line {} does not start at fragment {} of the input", k, pos));
        }
        pos += l.len();
        if pos > frags.len() {
            return Err(format!("line {} runs past the end of the input", k));
        }
        parts.push(l.len());
    }
    if pos != frags.len() {
        return Err(format!("lines cover {} of {} fragments", pos, frags.len()));
    }
    Ok(parts)
}

pub fn all_finite(frags: &[Frag], lws: &[f64]) -> bool {
    frags.iter().all(|f| f.w.is_finite() && f.ws.is_finite() && f.pw.is_finite()) && lws.iter().all(|w| w.is_finite())
}

pub fn check(case: &Case, obs: &mut Obs) -> Verdict {
    let frags = &case.frags;
    let lws = &case.lws;
    let finite = all_finite(frags, lws);
    let res: Result<Vec<usize>, String> = if case.sub.starts_with("algo") {
        let words = match super::c07::words_for(frags) {
            Some(w) => w,
            None => return Verdict::Skipped("fragments not representable as Words"),
        };
        if lws.iter().any(|w| w.fract() != 0.0 || *w < 0.0) {
            return Verdict::Skipped("line widths not representable as usize");
        }
        let ulws: Vec<usize> = lws.iter().map(|w| *w as usize).collect();
        let algo = if case.sub == "algo_first_fit" {
            textwrap::WrapAlgorithm::FirstFit
        } else {
            #[cfg(feature = "smawk")]
            {
                textwrap::WrapAlgorithm::OptimalFit(case.pen.unwrap_or(Pen::DEFAULT).build())
            }
            #[cfg(not(feature = "smawk"))]
            {
                return Verdict::Skipped("optimal-fit not available in this feature set");
            }
        };
        let lines = algo.wrap(&words, &ulws);
        obs.calls += 1;
        obs.bump("through_wrap_algorithm_enum");
        super::c07::word_partition(&words, &lines)
    } else if case.sub == "frag_first_fit" {
        let lines = textwrap::wrap_algorithms::wrap_first_fit(frags, lws);
        obs.calls += 1;
        check_partition(frags, &lines)
    } else {
        #[cfg(feature = "smawk")]
        {
            let pen = case.pen.unwrap_or(Pen::DEFAULT).build();
            obs.calls += 1;
            match textwrap::wrap_algorithms::wrap_optimal_fit(frags, lws, &pen) {
                Ok(lines) => check_partition(frags, &lines),
                Err(_) => {
                    obs.bump("optimal_fit_overflow_error");
                    return Verdict::Skipped("optimal-fit reported an overflow error (no partition to check)");
                }
            }
        }
        #[cfg(not(feature = "smawk"))]
        {
            let _ = Pen::DEFAULT;
            return Verdict::Skipped("optimal-fit not available in this feature set");
        }
    };
    match res {
        Err(e) => {
            if finite {
                Verdict::Violated(format!("{}: {}", case.sub, e))
            } else {
                obs.bump("nonfinite_partition_broken_info_only");
                Verdict::Skipped("non-finite widths (outside the statement); partition shape did not hold")
            }
        }
        Ok(parts) => {
            if !finite {
                obs.bump("nonfinite_partition_ok_info_only");
                return Verdict::Skipped("non-finite widths (outside the statement); partition shape held");
            }
            if obs.want_sample {
                obs.out = Some(J::Arr(parts.iter().map(|p| J::u(*p)).collect()));
            }
            if frags.is_empty() {
                obs.bump("empty_input");
            }
            if parts.len() >= 2 {
                obs.bump("multi_line");
            }
            if lws.is_empty() {
                obs.bump("empty_line_width_list");
            }
            let neg = frags.iter().any(|f| f.w < 0.0 || f.ws < 0.0 || f.pw < 0.0);
            let frac = frags.iter().any(|f| f.w.fract() != 0.0);
            if neg {
                obs.bump("negative_values");
            }
            if frac {
                obs.bump("fractional_values");
            }
            Verdict::held(
                parts.len() >= 2,
                h(&[hs(&case.sub), bucket(frags.len()), bucket(parts.len()), lws.len() as u64, neg as u64, frac as u64]),
            )
        }
    }
}

fn extra(cfg: &RunCfg, w: &mut Worker) {
    // exhaustive: every fragment sequence of length <= 5 over widths {0,1,2,5} x whitespace {0,1} x penalty {0,1}
    let max = if cfg.thorough { 5 } else { 4 };
    let choices: Vec<Frag> = {
        let mut v = Vec::new();
        for w_ in [0.0, 1.0, 2.0, 5.0] {
            for ws in [0.0, 1.0] {
                for pw in [0.0, 1.0] {
                    v.push(Frag { w: w_, ws, pw });
                }
            }
        }
        v
    };
    let k = choices.len();
    let threads = cfg.threads.max(1);
    let mut idx = 0usize;
    let mut n = 0u64;
    for len in 0..=max {
        for code in 0..k.pow(len as u32) {
            idx += 1;
            if idx % threads != w.id {
                continue;
            }
            if w.stopped() {
                return;
            }
            let mut c = code;
            let mut frags = Vec::new();
            for _ in 0..len {
                frags.push(choices[c % k]);
                c /= k;
            }
            for lws in [vec![], vec![3.0], vec![5.0, 2.0]] {
                for sub in ["frag_first_fit", "frag_optimal_fit"] {
                    let mut case = Case::new(sub);
                    case.frags = frags.clone();
                    case.lws = lws.clone();
                    case.pen = Some(Pen::DEFAULT);
                    w.run_case(&case);
                    n += 1;
                }
            }
        }
    }
    // long sequences (thousands of fragments, hundreds of lines)
    {
        let mut r = Rng::stream(cfg.seed, &["C06", "long"], w.id as u64);
        for k in 0..(if cfg.thorough { 16 } else { 2 }) {
            let n = r.range(300, 5000);
            let mut c = Case::new(["frag_first_fit", "frag_optimal_fit", "algo_first_fit", "algo_optimal_fit"][k % 4]);
            c.frags = (0..n).map(|_| Frag { w: r.range(0, 4) as f64, ws: r.range(0, 1) as f64, pw: r.below(2) as f64 }).collect();
            c.lws = (0..r.range(1, 3)).map(|_| r.range(2, 12) as f64).collect();
            c.pen = Some(Pen::DEFAULT);
            w.run_case(&c);
            *w.stats.counters.entry("long_sequences".to_string()).or_insert(0) += 1;
        }
    }
    // more than 65535 lines in one call (16-bit line counters)
    if w.id == 1 || (cfg.thorough && w.id < 4) {
        for (k, sub) in ["frag_optimal_fit", "frag_first_fit"].iter().enumerate() {
            let n = 70_000 + 10_000 * (w.id + k);
            let mut c = Case::new(sub);
            c.frags = (0..n).map(|i| Frag { w: 1.0 + (i % 3) as f64, ws: 1.0, pw: 0.0 }).collect();
            c.lws = vec![3.0];
            c.pen = Some(Pen::DEFAULT);
            w.run_case(&c);
            *w.stats.counters.entry("more_than_65535_lines".to_string()).or_insert(0) += 1;
        }
    }
    if w.id == 0 {
        w.note_exhaustive(
            "small-fragments",
            &format!("every fragment sequence of length <= {} over widths {{0,1,2,5}} x whitespace {{0,1}} x penalty {{0,1}} x line widths {{[],[3],[5,2]}} x both algorithms (sharded; this worker ran {})", max, n),
            n * threads as u64,
        );
    }
}

pub fn prop() -> Prop {
    Prop {
        id: "C06",
        rule: "cases = fragment sequences of length 0..60 with integer (small / up to 2^20), dyadic, and arbitrary finite f64 (zero, fractional, negative, 1e-300..f64::MAX) widths / whitespace / penalty widths, line-width lists of length 0..3 (0..12 through WrapAlgorithm::wrap with Word fragments), arbitrary usize penalties, for wrap_first_fit, wrap_optimal_fit and WrapAlgorithm::{FirstFit, OptimalFit}.wrap, sequences of up to 5000 fragments in the long sub-run (+ exhaustive small fragments); the returned slices are checked by pointer and length to be non-empty contiguous runs covering the input in order; Err results and non-finite inputs are counted separately and never judged; non-trivial = >= 2 lines; distinct = (algorithm, length bucket, line bucket, line-width list length, negative, fractional)",
        gen,
        check,
        panic_is_violation: false,
        budget: (3600000, 120000000),
        extra: Some(extra),
        required: &["more_than_65535_lines", "long_sequences", "through_wrap_algorithm_enum", "multi_line", "empty_input", "empty_line_width_list", "negative_values", "fractional_values"],
        known: None,
    }
}
