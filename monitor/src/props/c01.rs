//! C01 — lines are in-order slices of the input.

use super::common::*;
use crate::case::{Case, OptSpec, Sep, Split};
use crate::gen::opts::OptDomain;
use crate::gen::text::enumerate_strings;
use crate::json::J;
use crate::oracle::place::{place, LineIn};
use crate::rng::Rng;
use crate::run::{Obs, Prop, RunCfg, Verdict, Worker};

pub const SMALL_ALPHABET: &[&str] = &["a", " ", "-", "你", "\u{301}", "\u{1b}[m"];

fn gen(r: &mut Rng, _cfg: &RunCfg) -> Case {
    let text = gen_text(r, TextDomain::Any);
    let o = gen_opts(r, OptDomain::ALL, &text, false);
    let sub = if r.chance(1, 4) { "fill" } else { "wrap" };
    wrap_case(sub, text, o)
}

pub fn check(case: &Case, obs: &mut Obs) -> Verdict {
    let text = case.t(0);
    let o = case.o(0);
    if !o.available() {
        return Verdict::Skipped("options not available in this feature set");
    }
    let opts = o.build();
    if case.sub == "fill" {
        let filled = textwrap::fill(text, &opts);
        obs.calls += 1;
        let parts: Vec<&str> = filled.split(o.le()).collect();
        let infos: Vec<LineIn> =
            parts.iter().map(|p| LineIn { full: p, borrowed: None, ptr_off: None, outside: false }).collect();
        match place(text, o, &infos) {
            Err(e) => Verdict::Violated(format!("fill: {}", e.describe())),
            Ok(placed) => {
                obs.bump("fill_cases");
                if parts.len() >= 2 {
                    obs.bump("multi_line");
                }
                if obs.want_sample {
                    obs.out = Some(strs_json(&parts));
                }
                Verdict::held(parts.len() >= 2, h(&[1, o.shape(), bucket(parts.len()), placed.iter().any(|p| p.hyphen) as u64]))
            }
        }
    } else {
        let lines = textwrap::wrap(text, &opts);
        obs.calls += 1;
        let infos = line_infos(text, &lines);
        if obs.want_sample {
            obs.out = Some(lines_json(&lines));
        }
        match place(text, o, &infos) {
            Err(e) => Verdict::Violated(format!("wrap: {}", e.describe())),
            Ok(placed) => {
                let n = lines.len();
                let borrowed = infos.iter().filter(|l| l.borrowed == Some(true)).count();
                let hyph = placed.iter().any(|p| p.hyphen);
                let forced = placed.windows(2).any(|w| w[0].end == w[1].start && w[0].end > w[0].start && w[1].end > w[1].start);
                let space_end = placed.iter().any(|p| p.end > p.start && text.as_bytes()[p.end - 1] == b' ');
                let dropped: usize = {
                    let covered: usize = placed.iter().map(|p| p.end - p.start).sum();
                    text.len() - covered
                };
                if n >= 2 {
                    obs.bump("multi_line");
                }
                if borrowed > 0 {
                    obs.bump("borrowed_seen");
                }
                if borrowed < n {
                    obs.bump("owned_seen");
                }
                if hyph {
                    obs.bump("inserted_hyphen");
                }
                if forced {
                    obs.bump("forced_break");
                }
                if space_end {
                    obs.bump("slice_ends_in_space");
                }
                if dropped > 0 {
                    obs.bump("spaces_or_breaks_dropped");
                }
                obs.add("lines", n as u64);
                if obs.want_sample {
                    obs.out = Some(lines_json(&lines));
                }
                let mixsig = (borrowed == n) as u64 | ((borrowed == 0) as u64) << 1;
                Verdict::held(
                    n >= 2,
                    h(&[0, o.shape(), bucket(n), mixsig, hyph as u64, forced as u64, space_end as u64, (dropped > 0) as u64]),
                )
            }
        }
    }
}

/// Exhaustive sub-run: every string of up to `max` tokens over SMALL_ALPHABET
/// x widths 0..=7 x the built-in option grid (+ one indent variant).
pub fn exhaustive_strings(cfg: &RunCfg, w: &mut Worker, max: usize, sub: &str, with_indent: bool) {
    let grid = small_option_grid();
    let threads = cfg.threads.max(1);
    let mut idx = 0usize;
    let mut count = 0u64;
    let mut strings = Vec::new();
    enumerate_strings(SMALL_ALPHABET, max, |s| {
        if idx % threads == w.id {
            strings.push(s.to_string());
        }
        idx += 1;
    });
    'outer: for s in strings {
        for width in 0..=7usize {
            for g in &grid {
                if w.stopped() {
                    break 'outer;
                }
                let mut o = g.clone();
                o.width = width;
                if with_indent && (width + s.len()) % 3 == 0 {
                    o.ii = "> ".to_string();
                    o.si = "é".to_string();
                }
                let case = Case::new(sub).text(s.clone()).opt(o);
                w.run_case(&case);
                count += 1;
            }
        }
    }
    if w.id == 0 {
        let total = crate::gen::text::enumerate_count(SMALL_ALPHABET.len(), max) as u64 * 8 * grid.len() as u64;
        w.note_exhaustive(
            "small-strings",
            &format!(
                "all strings of <= {} tokens over {{a, ' ', '-', 你, U+0301, ESC[m}} x widths 0..=7 x {} option combinations (sharded over {} workers; this worker ran {})",
                max,
                grid.len(),
                threads,
                count
            ),
            total,
        );
    }
}

fn extra(cfg: &RunCfg, w: &mut Worker) {
    exhaustive_strings(cfg, w, if cfg.thorough { 6 } else { 4 }, "wrap", true);
    corpus_subrun(cfg, w, |i, paras, width, v| {
        let text = if v == 3 && i + 1 < paras.len() { format!("{}\n\n{}", paras[i], paras[i + 1]) } else { paras[i].clone() };
        grid_variant(v, i, width, false).map(|o| Case::new(if v == 2 { "fill" } else { "wrap" }).text(text).opt(o))
    });
    // more than 65535 output lines from one paragraph
    if w.id == 3 || (cfg.thorough && w.id == 7) {
        let text = "ab ".repeat(70_000 + 1000 * w.id);
        let mut o = OptSpec::new(2);
        o.algo = if cfg!(feature = "smawk") { crate::case::Algo::Optimal(crate::case::Pen::DEFAULT) } else { crate::case::Algo::FirstFit };
        w.run_case(&Case::new("wrap").text(text).opt(o));
        *w.stats.counters.entry("more_than_65535_lines".to_string()).or_insert(0) += 1;
    }
    // stress: long texts, located by pointer only (empty indents)
    if cfg.thorough || w.id < 2 {
        let mut r = Rng::stream(cfg.seed, &["C01", "stress"], w.id as u64);
        let target = if cfg.thorough { 400_000 } else { 80_000 };
        let mut s = String::new();
        while s.len() < target {
            s.push_str(&gen_text(&mut r, TextDomain::Any));
            s.push(' ');
        }
        let mut o = OptSpec::new(*r.pick(&[20usize, 60, 80]));
        o.bw = r.coin();
        w.run_case(&Case::new("wrap").text(s).opt(o));
        *w.stats.counters.entry("stress_texts".to_string()).or_insert(0) += 1;
    }
}

pub fn known(_c: &Case, _m: &str) -> Option<&'static str> {
    None
}

pub fn prop() -> Prop {
    Prop {
        id: "C01",
        rule: "cases = generated (text, options) pairs for wrap (3/4) and fill (1/4) over the hostile alphabet (dirty escape sequences included), boundary-directed widths incl. usize::MAX, all splitters incl. custom, both algorithms, plus the exhaustive small-string sub-run; non-trivial = result has >= 2 lines; distinct = distinct (option shape, line-count bucket, borrowed/owned mix, inserted hyphen seen, forced break seen, slice-ending-in-space seen, dropped characters seen) signatures",
        gen,
        check,
        panic_is_violation: false,
        budget: (1440000, 36000000),
        extra: Some(extra),
        required: &["more_than_65535_lines", "multi_line", "borrowed_seen", "owned_seen", "forced_break", "spaces_or_breaks_dropped"],
        known: Some(known),
    }
}

#[allow(dead_code)]
fn _unused(_: &OptSpec, _: Sep, _: Split, _: J) {}
