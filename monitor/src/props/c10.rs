//! C10 — display_width is the sum of character widths outside ANSI sequences.

use super::common::*;
use crate::case::Case;
use crate::gen::text::{clean_seq, Class, Mix};
use crate::json::J;
use crate::oracle::ansi::{clean_ansi, tokenize, Kind};
use crate::oracle::width::{ref_char_width, ref_width};
use crate::rng::Rng;
use crate::run::{Obs, Prop, RunCfg, Verdict, Worker};
use textwrap::core::display_width as dw;

fn gen(r: &mut Rng, _cfg: &RunCfg) -> Case {
    match r.below(8) {
        0..=2 => {
            // clean text: sum rule
            let t = if r.coin() { gen_text(r, TextDomain::Clean) } else { gen_line(r, TextDomain::Clean) };
            Case::new("sum").text(t)
        }
        3 => {
            // additivity over ESC-free strings
            let m = Mix::swarm(r, &[Class::Ascii, Class::Wide, Class::Zero, Class::Punct, Class::Space, Class::Para, Class::Scalars, Class::Real, Class::Repeat]);
            let a = { let n = r.below(6); m.text(r, n) };
            let b = { let n = r.below(6); m.text(r, n) };
            Case::new("additive").text(a).text(b)
        }
        4..=5 => {
            // insertion of a clean sequence at a char boundary outside sequences
            let t = gen_line(r, TextDomain::Clean);
            let seq = clean_seq(r);
            let toks = tokenize(&t);
            let pos = if toks.is_empty() { 0 } else if r.chance(1, 8) { t.len() } else { toks[r.below(toks.len())].start };
            Case::new("insert").text(t).text(seq).num(pos)
        }
        6 => {
            // random scalar values glued together
            let mut s = String::new();
            for _ in 0..r.range(1, 12) {
                let c = loop {
                    let x = match r.below(6) {
                        0 => r.below(0x80) as u32,
                        1 => r.below(0x3000) as u32,
                        2 => 0x1100 + r.below(0x200) as u32,
                        3 => 0x1F000 + r.below(0x1000) as u32,
                        4 => 0xE0000 + r.below(0x200) as u32,
                        _ => r.below(0x110000) as u32,
                    };
                    if let Some(c) = char::from_u32(x) {
                        if c != '\u{1b}' {
                            break c;
                        }
                    }
                };
                s.push(c);
            }
            Case::new("sum").text(s)
        }
        _ => {
            // any text, dirty sequences included: width never exceeds byte length
            let t = gen_text(r, TextDomain::Any);
            Case::new("le_len").text(t)
        }
    }
}

pub fn check(case: &Case, obs: &mut Obs) -> Verdict {
    let t = case.t(0);
    match case.sub.as_str() {
        "sum" => {
            if !clean_ansi(t) {
                return Verdict::Skipped("not clean");
            }
            let got = dw(t);
            obs.calls += 1;
            let want = ref_width(t);
            if got != want {
                return Verdict::Violated(format!("display_width({:?}) = {} but the per-character sum outside sequences is {}", t, got, want));
            }
            if got > t.len() {
                return Verdict::Violated(format!("display_width {} exceeds byte length {}", got, t.len()));
            }
            let has_seq = t.contains('\u{1b}');
            let has_wide = t.chars().any(|c| ref_char_width(c) >= 2);
            let has_zero = t.chars().any(|c| c != '\u{1b}' && ref_char_width(c) == 0);
            if has_seq {
                obs.bump("with_sequences");
            }
            if has_wide {
                obs.bump("with_wide");
            }
            if has_zero {
                obs.bump("with_zero_width");
            }
            if obs.want_sample {
                obs.out = Some(J::u(got));
            }
            Verdict::held(!t.is_empty(), h(&[0, has_seq as u64, has_wide as u64, has_zero as u64, bucket(t.chars().count()), bucket(got)]))
        }
        "additive" => {
            let b = case.t(1);
            if t.contains('\u{1b}') || b.contains('\u{1b}') {
                return Verdict::Skipped("contains ESC");
            }
            let ab = format!("{}{}", t, b);
            obs.calls += 3;
            if dw(&ab) != dw(t) + dw(b) {
                return Verdict::Violated(format!("display_width({:?}+{:?}) = {} != {} + {}", t, b, dw(&ab), dw(t), dw(b)));
            }
            obs.bump("additive");
            Verdict::held(!t.is_empty() && !b.is_empty(), h(&[1, bucket(dw(t)), bucket(dw(b))]))
        }
        "insert" => {
            let seq = case.t(1);
            let pos = case.nums[0];
            if !clean_ansi(t) || !clean_ansi(seq) || !t.is_char_boundary(pos) {
                return Verdict::Skipped("not clean");
            }
            // position must be outside existing sequences
            if tokenize(t).iter().any(|k| !matches!(k.kind, Kind::Char(_)) && k.start < pos && pos < k.end) {
                return Verdict::Skipped("position inside a sequence");
            }
            let mut t2 = String::with_capacity(t.len() + seq.len());
            t2.push_str(&t[..pos]);
            t2.push_str(seq);
            t2.push_str(&t[pos..]);
            obs.calls += 2;
            if dw(&t2) != dw(t) {
                return Verdict::Violated(format!("inserting {:?} at byte {} of {:?} changes display_width from {} to {}", seq, pos, t, dw(t), dw(&t2)));
            }
            obs.bump("insertions");
            let fin = seq.chars().last().unwrap_or(' ');
            Verdict::held(true, h(&[2, fin as u64, seq.starts_with("\u{1b}]") as u64, (pos == 0) as u64, (pos == t.len()) as u64]))
        }
        _ => {
            obs.calls += 1;
            let got = dw(t);
            if got > t.len() {
                return Verdict::Violated(format!("display_width({:?}) = {} exceeds the byte length {}", t, got, t.len()));
            }
            let dirty = !clean_ansi(t);
            if dirty {
                obs.bump("dirty_texts");
            }
            Verdict::held(dirty, h(&[3, bucket(t.len()), bucket(got), dirty as u64]))
        }
    }
}

/// Exhaustive over all Unicode scalar values (sharded over workers).
fn extra(cfg: &RunCfg, w: &mut Worker) {
    let threads = cfg.threads.max(1) as u32;
    let mut n = 0u64;
    let mut buf = [0u8; 4];
    let mut classes = std::collections::BTreeMap::new();
    for cp in 0..=0x10FFFFu32 {
        if cp % threads != w.id as u32 {
            continue;
        }
        let c = match char::from_u32(cp) {
            Some(c) => c,
            None => continue,
        };
        if c == '\u{1b}' {
            continue;
        }
        let s: &str = c.encode_utf8(&mut buf);
        let want = ref_char_width(c);
        // the library is only ever called under catch_unwind: a panic is routed through the normal path too
        let got = std::panic::catch_unwind(|| dw(s)).ok();
        n += 1;
        *classes.entry(want).or_insert(0u64) += 1;
        if got != Some(want) || got.map_or(true, |g| g > s.len()) {
            // route through the normal path so that it is recorded with a replayable case
            w.run_case(&Case::new("sum").text(s.to_string()));
        }
        // the char embedded between two others (additivity per scalar)
        if cp % 64 == 0 {
            let t = format!("a{}你", c);
            let got = std::panic::catch_unwind(|| dw(&t)).ok();
            if got != Some(1 + want + ref_char_width('你')) {
                w.run_case(&Case::new("sum").text(t));
            }
        }
    }
    w.stats.evaluations += n;
    w.stats.calls += n;
    for (k, v) in classes {
        let key = match k {
            0 => "scalars_width0",
            1 => "scalars_width1",
            2 => "scalars_width2",
            _ => "scalars_width3plus",
        };
        *w.stats.counters.entry(key.to_string()).or_insert(0) += v;
    }
    if w.id == 0 {
        w.stats.exhaustive_subruns.push(
            J::obj()
                .set("name", J::s("all-scalars"))
                .set("space", J::s("every Unicode scalar value except ESC (1,112,063), display_width(c) == reference width and <= len_utf8(c); sharded over workers"))
                .set("cases", J::u64(1_112_063))
                .set("exhaustive", J::Bool(true)),
        );
    }
}

pub fn prop() -> Prop {
    Prop {
        id: "C10",
        rule: "exhaustive: every Unicode scalar value except ESC individually (display_width == reference table / crude rule, <= UTF-8 length). generated: clean texts (sum rule), ESC-free pairs (additivity), insertion of well-formed CSI (final bytes over all of @..~) / OSC (BEL and ESC \\ terminators) at character boundaries, arbitrary dirty texts (width <= byte length). non-trivial = non-empty text; distinct = (sub-check, has sequences / wide / zero-width, length and width buckets, final byte of inserted sequence)",
        gen,
        check,
        panic_is_violation: false,
        budget: (2400000, 120000000),
        extra: Some(extra),
        required: &["with_sequences", "with_wide", "additive", "insertions", "dirty_texts", "scalars_width1", "scalars_width2"],
        known: None,
    }
}
