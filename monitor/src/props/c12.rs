//! C12 — splitting and force-breaking words is lossless, bounded and escape-safe.

use super::common::*;
use crate::case::{Case, OptSpec, Split};
use crate::gen::text::{Class, Mix};
use crate::json::J;
use crate::oracle::ansi::{clean_ansi, tokenize, Kind};
use crate::oracle::width::{ref_char_width, visible_nonzero};
use crate::oracle::words::ref_split_points;
use crate::rng::Rng;
use crate::run::{Obs, Prop, RunCfg, Verdict, Worker};
use textwrap::core::{display_width as dw, Word};

fn gen_word(r: &mut Rng, clean: bool) -> String {
    let classes: &[Class] = if clean {
        &[Class::Ascii, Class::Wide, Class::Zero, Class::Punct, Class::Clean, Class::Scalars, Class::Real, Class::RealStyled]
    } else {
        &[Class::Ascii, Class::Wide, Class::Zero, Class::Punct, Class::Clean, Class::Dirty, Class::Scalars, Class::Real, Class::RealStyled]
    };
    loop {
        let mut m = Mix::swarm(r, classes);
        m.glue = 16; // no spaces between tokens
        let n = r.range(0, 6);
        let mut s = m.text(r, n);
        if r.chance(1, 3) {
            s.push_str(*r.pick(&["a-b", "-", "x-y-z", "1-2", "é-ü", "--a-b", "a--b", "-a", "b-", "你-好", "a-\u{1b}[0mb"]));
        }
        if r.chance(1, 4) {
            // '-' between two random scalars: the alphanumeric rule across all of Unicode
            let a = crate::gen::text::random_scalar(r);
            let b = crate::gen::text::random_scalar(r);
            if a != ' ' && b != ' ' {
                s.push(a);
                s.push('-');
                s.push(b);
                if r.coin() {
                    s.push_str("-x");
                }
            }
        }
        if r.chance(1, 6) {
            // words with interior spaces occur with the Unicode separator
            s.push_str(" )");
        }
        if !clean || clean_ansi(&s) {
            return s;
        }
    }
}

fn gen(r: &mut Rng, _cfg: &RunCfg) -> Case {
    let clean = r.chance(3, 4);
    let mut w = gen_word(r, clean);
    let ws = *r.pick(&["", "", " ", "  "]);
    w.push_str(ws);
    let pen = r.chance(1, 4) as usize;
    if r.coin() {
        let mut o = OptSpec::new(0);
        o.split = *r.pick(&[Split::None, Split::Hyphen, Split::Hyphen, Split::Custom]);
        Case::new("split").text(w).opt(o).num(pen)
    } else {
        let limit = match r.below(8) {
            0 => 0,
            1 => 1,
            2..=5 => r.range(2, 8),
            6 => r.range(8, 30),
            _ => usize::MAX,
        };
        Case::new("break").text(w).num(pen).num(limit)
    }
}

fn mk_word<'a>(s: &'a str, pen: bool) -> Word<'a> {
    let mut w = Word::from(s);
    if pen {
        w.penalty = "-";
    }
    w
}

fn check_split(case: &Case, obs: &mut Obs) -> Verdict {
    let s = case.t(0);
    let o = case.o(0);
    let word = mk_word(s, case.nums[0] == 1);
    let splitter = o.split_build();
    let got_points = splitter.split_points(word.word);
    let want_points = ref_split_points(o.split, word.word);
    obs.calls += 1;
    if got_points != want_points {
        return Verdict::Violated(format!("split_points({:?}) = {:?}, expected {:?}", word.word, got_points, want_points));
    }
    let pieces: Vec<Word> = textwrap::word_splitters::split_words(vec![word], &splitter).collect();
    obs.calls += 1;
    if obs.want_sample {
        obs.out = Some(J::Arr(pieces.iter().map(|p| J::s(&format!("{}|{}|{}", p.word, p.whitespace, p.penalty))).collect()));
    }
    if pieces.is_empty() {
        return Verdict::Violated("no piece returned".to_string());
    }
    let concat: String = pieces.iter().map(|p| p.word).collect();
    if concat != word.word {
        return Verdict::Violated(format!("pieces concatenate to {:?}, not {:?}", concat, word.word));
    }
    let mut cuts = Vec::new();
    let mut pos = 0;
    for (k, p) in pieces.iter().enumerate() {
        pos += p.word.len();
        let last = k + 1 == pieces.len();
        if p.width != dw(p.word) {
            return Verdict::Violated(format!("piece {:?} has cached width {} != {}", p.word, p.width, dw(p.word)));
        }
        if !last {
            cuts.push(pos);
            if !p.whitespace.is_empty() {
                return Verdict::Violated(format!("inner piece {:?} carries whitespace {:?}", p.word, p.whitespace));
            }
            let want_pen = if word.word[..pos].ends_with('-') { "" } else { "-" };
            if p.penalty != want_pen {
                return Verdict::Violated(format!("inner piece {:?} has penalty {:?}, expected {:?}", p.word, p.penalty, want_pen));
            }
        } else {
            if p.whitespace != word.whitespace || p.penalty != word.penalty {
                return Verdict::Violated(format!(
                    "last piece {:?} has whitespace {:?} / penalty {:?}, expected the original {:?} / {:?}",
                    p.word, p.whitespace, p.penalty, word.whitespace, word.penalty
                ));
            }
        }
    }
    if cuts != want_points {
        return Verdict::Violated(format!("pieces are cut at {:?}, split points are {:?}", cuts, want_points));
    }
    if !cuts.is_empty() {
        obs.bump("split_happened");
        if pieces.iter().any(|p| p.penalty == "-") {
            obs.bump("hyphen_penalty_set");
        }
        if pieces[..pieces.len() - 1].iter().any(|p| p.penalty.is_empty()) {
            obs.bump("no_penalty_after_existing_hyphen");
        }
    }
    if word.word.is_empty() {
        obs.bump("empty_word");
    }
    Verdict::held(
        !cuts.is_empty(),
        h(&[0, o.split as u64, bucket(cuts.len()), !word.whitespace.is_empty() as u64, !word.penalty.is_empty() as u64, word.word.contains('\u{1b}') as u64]),
    )
}

fn check_break(case: &Case, obs: &mut Obs) -> Verdict {
    let s = case.t(0);
    let word = mk_word(s, case.nums[0] == 1);
    let limit = case.nums[1];
    let pieces: Vec<Word> = word.break_apart(limit).collect();
    obs.calls += 1;
    if obs.want_sample {
        obs.out = Some(J::Arr(pieces.iter().map(|p| J::s(&format!("{}|{}|{}|{}", p.word, p.width, p.whitespace, p.penalty))).collect()));
    }
    let concat: String = pieces.iter().map(|p| p.word).collect();
    if concat != word.word {
        return Verdict::Violated(format!("break_apart({}) pieces concatenate to {:?}, not {:?}", limit, concat, word.word));
    }
    let clean = crate::oracle::ansi::wellformed_or_two_char(word.word);
    let toks = tokenize(word.word);
    let mut pos = 0usize;
    for (k, p) in pieces.iter().enumerate() {
        let last = k + 1 == pieces.len();
        if p.word.is_empty() {
            return Verdict::Violated(format!("break_apart({}) of {:?} yields an empty piece", limit, word.word));
        }
        if p.width != dw(p.word) {
            return Verdict::Violated(format!("piece {:?} has cached width {} != display width {}", p.word, p.width, dw(p.word)));
        }
        if !last && (!p.whitespace.is_empty() || !p.penalty.is_empty()) {
            return Verdict::Violated(format!("inner piece {:?} carries whitespace/penalty", p.word));
        }
        if last && (p.whitespace != word.whitespace || p.penalty != word.penalty) {
            return Verdict::Violated(format!("last piece {:?} lost the original whitespace/penalty", p.word));
        }
        if clean {
            if p.width > limit && visible_nonzero(p.word) > 1 {
                return Verdict::Violated(format!("piece {:?} is wider ({}) than the limit {} and has more than one non-zero-width character", p.word, p.width, limit));
            }
            let end = pos + p.word.len();
            if !last {
                // the cut must be at a token boundary (never inside a sequence or a character); the following piece
                // may begin with escape sequences, its first visible character must not have fitted
                match toks.iter().position(|t| t.start == end) {
                    Some(mut k) => {
                        while k < toks.len() && !matches!(toks[k].kind, Kind::Char(_)) {
                            k += 1;
                        }
                        if let Some(Kind::Char(c)) = toks.get(k).map(|t| t.kind) {
                            if !(p.width + ref_char_width(c) > limit) {
                                return Verdict::Violated(format!(
                                    "piece {:?} (width {}) is not maximal: next character {:?} (width {}) would have fitted in {}",
                                    p.word, p.width, c, ref_char_width(c), limit
                                ));
                            }
                        }
                    }
                    None => {
                        return Verdict::Violated(format!("cut at byte {} of {:?} falls inside an escape sequence or character", end, word.word));
                    }
                }
            }
        }
        pos += p.word.len();
    }
    // break_words dispatch: words not wider than the limit pass through unchanged
    let bw = textwrap::core::break_words(vec![word], limit);
    obs.calls += 1;
    if word.width <= limit {
        if bw != vec![word] {
            return Verdict::Violated(format!("break_words changed a word of width {} <= limit {}: {:?}", word.width, limit, bw));
        }
        obs.bump("pass_through");
    } else if bw != pieces {
        return Verdict::Violated(format!("break_words differs from break_apart for width {} > limit {}", word.width, limit));
    }
    if pieces.len() >= 2 {
        obs.bump("broken");
        if word.word.contains('\u{1b}') && clean {
            obs.bump("broken_with_sequences");
        }
        if pieces.iter().any(|p| p.width > limit) {
            obs.bump("overwide_single_char_piece");
        }
    }
    Verdict::held(
        pieces.len() >= 2,
        h(&[1, bucket(limit.min(100)), bucket(pieces.len()), clean as u64, word.word.contains('\u{1b}') as u64, pieces.iter().any(|p| p.width > limit) as u64, !word.penalty.is_empty() as u64]),
    )
}

pub fn check(case: &Case, obs: &mut Obs) -> Verdict {
    match case.sub.as_str() {
        "split" => check_split(case, obs),
        _ => check_break(case, obs),
    }
}

fn extra(cfg: &RunCfg, w: &mut Worker) {
    let alphabet: &[&str] = &["a", "-", "你", "\u{301}", "\u{1b}[m", "1"];
    let max = if cfg.thorough { 6 } else { 4 };
    let threads = cfg.threads.max(1);
    let mut idx = 0usize;
    let mut todo = Vec::new();
    crate::gen::text::enumerate_strings(alphabet, max, |s| {
        if idx % threads == w.id {
            todo.push(s.to_string());
        }
        idx += 1;
    });
    let mut n = 0u64;
    for s in todo {
        if w.stopped() {
            break;
        }
        for split in [Split::None, Split::Hyphen, Split::Custom] {
            let mut o = OptSpec::new(0);
            o.split = split;
            w.run_case(&Case::new("split").text(s.clone()).opt(o).num(0));
            n += 1;
        }
        for limit in 0..=4usize {
            w.run_case(&Case::new("break").text(s.clone()).num(0).num(limit));
            n += 1;
        }
    }
    if w.id == 0 {
        w.note_exhaustive(
            "short-words",
            &format!("all words of <= {} tokens over {{a,'-',你,U+0301,ESC[m,1}} x 3 splitters and x limits 0..=4 (sharded; this worker ran {})", max, n),
            crate::gen::text::enumerate_count(alphabet.len(), max) as u64 * 8,
        );
    }
}

pub fn prop() -> Prop {
    Prop {
        id: "C12",
        rule: "cases = words over the hostile alphabet (clean and dirty sequences, zero-width, wide, hyphen patterns, interior spaces), with/without trailing whitespace and penalty; 'split' checks split_points and split_words against the reference rule for none/hyphen/custom splitters, 'break' checks break_apart / break_words for limits 0..30 and usize::MAX; + exhaustive short words. non-trivial = the word was actually split / broken into >= 2 pieces; distinct = (sub-check, splitter or limit bucket, piece-count bucket, whitespace, penalty, sequences, over-wide piece)",
        gen,
        check,
        panic_is_violation: false,
        budget: (2400000, 72000000),
        extra: Some(extra),
        required: &["split_happened", "hyphen_penalty_set", "no_penalty_after_existing_hyphen", "broken", "broken_with_sequences", "overwide_single_char_piece", "pass_through", "empty_word"],
        known: None,
    }
}
