//! C17 — fill_inplace only turns spaces into newlines and agrees with wrap.

use super::common::*;
use crate::case::{Case, OptSpec};
use crate::gen::opts;
use crate::gen::text::{Class, Mix};
use crate::json::J;
use crate::rng::Rng;
use crate::run::{Obs, Prop, RunCfg, Verdict, Worker};

fn gen(r: &mut Rng, _cfg: &RunCfg) -> Case {
    let mut text = match r.below(4) {
        0 => gen_text(r, TextDomain::Any),
        1 => {
            // space-run heavy
            let m = Mix::swarm(r, &[Class::Ascii, Class::Wide, Class::Space, Class::Para, Class::Scalars, Class::Real, Class::Repeat]);
            let n = r.range(1, 16);
            let mut s = String::new();
            for _ in 0..n {
                s.push_str(&m.token(r));
                for _ in 0..r.below(4) {
                    s.push(' ');
                }
            }
            s
        }
        _ => gen_text(r, TextDomain::Clean),
    };
    if r.chance(1, 5) {
        text = format!("{}{}{}", *r.pick(&[" ", "  ", "   "]), text, *r.pick(&[" ", "  ", "\n", " \n "]));
    }
    let dw = crate::oracle::width::ref_width(&text);
    let w = opts::width(r, text.len(), dw);
    Case::new("inplace").text(text).num(w)
}

pub fn check(case: &Case, obs: &mut Obs) -> Verdict {
    let orig = case.t(0);
    let width = case.nums[0];
    let mut s = orig.to_string();
    textwrap::fill_inplace(&mut s, width);
    obs.calls += 1;
    if obs.want_sample {
        obs.out = Some(J::s(&crate::case::preview(&s, 200)));
    }
    if s.len() != orig.len() {
        return Verdict::Violated(format!("length changed from {} to {}", orig.len(), s.len()));
    }
    let mut changed = 0usize;
    for (i, (a, b)) in orig.bytes().zip(s.bytes()).enumerate() {
        if a != b {
            if !(a == b' ' && b == b'\n') {
                return Verdict::Violated(format!("byte {} changed from {:#04x} to {:#04x}", i, a, b));
            }
            changed += 1;
        }
    }
    let mut o = OptSpec::new(width);
    o.bw = false;
    let built = o.build();
    let want = if o.by_ref(orig) { textwrap::wrap(orig, &built) } else { textwrap::wrap(orig, o.build()) };
    obs.calls += 1;
    let got: Vec<&str> = s.split('\n').map(|l| l.trim_end_matches(' ')).collect();
    if got.len() != want.len() || got.iter().zip(want.iter()).any(|(a, b)| *a != b.as_ref()) {
        return Verdict::Violated(format!("lines after fill_inplace {:?} differ from wrap with the documented options {:?}", got, want));
    }
    if changed > 0 {
        obs.bump("breaks_inserted");
    }
    if !orig.is_ascii() && changed > 0 {
        obs.bump("multibyte_with_breaks");
    }
    if orig.contains("  ") && changed > 0 {
        obs.bump("space_runs_with_breaks");
    }
    if orig.contains('\n') && changed > 0 {
        obs.bump("multi_paragraph_with_breaks");
    }
    Verdict::held(
        changed > 0,
        h(&[bucket(changed), bucket(width.min(100)), !orig.is_ascii() as u64, orig.contains("  ") as u64, orig.contains('\n') as u64, orig.starts_with(' ') as u64, orig.ends_with(' ') as u64]),
    )
}

fn extra(cfg: &RunCfg, w: &mut Worker) {
    corpus_subrun(cfg, w, |i, paras, width, v| {
        if v >= 2 {
            return None;
        }
        let text = if v == 1 && i + 1 < paras.len() { format!("{}\n\n{}", paras[i], paras[i + 1]) } else { paras[i].clone() };
        Some(Case::new("inplace").text(text).num(width))
    });
    let max = if cfg.thorough { 7 } else { 5 };
    let alphabet: &[&str] = &["a", " ", "你", "\n", "bb"];
    let threads = cfg.threads.max(1);
    let mut idx = 0usize;
    let mut todo = Vec::new();
    crate::gen::text::enumerate_strings(alphabet, max, |s| {
        if idx % threads == w.id {
            todo.push(s.to_string());
        }
        idx += 1;
    });
    let mut n = 0u64;
    'outer: for s in todo {
        for width in 0..=6usize {
            if w.stopped() {
                break 'outer;
            }
            w.run_case(&Case::new("inplace").text(s.clone()).num(width));
            n += 1;
        }
    }
    if w.id == 0 {
        w.note_exhaustive(
            "small-strings",
            &format!("all strings of <= {} tokens over {{a,' ',你,LF,bb}} x widths 0..=6 (sharded; this worker ran {})", max, n),
            crate::gen::text::enumerate_count(alphabet.len(), max) as u64 * 7,
        );
    }
    // word-count ladder: ONE paragraph (no line break) of N words for N around powers of two — buffers,
    // chunking and caches keyed on the number of words of a line change behaviour at such sizes
    {
        let mut ns: Vec<usize> = vec![63, 64, 65, 127, 128, 129, 255, 256, 257, 300, 511, 512, 513, 1023, 1024, 1025, 4095, 4096, 4097];
        if cfg.thorough {
            ns.extend([16383, 16384, 16385, 65535, 65536, 65537]);
        }
        let vocab = ["foo", "é", "你好", "a", "longerword", "x-y", "wörld", "of"];
        let mut r = Rng::stream(cfg.seed, &["C17", "ladder"], 0);
        let mut k = 0u64;
        let mut idx = 0usize;
        for n in &ns {
            for width in [7usize, 20, 30, 80] {
                for variant in 0..2 {
                    idx += 1;
                    let mut s = String::new();
                    for i in 0..*n {
                        if i > 0 {
                            s.push(' ');
                        }
                        s.push_str(if variant == 0 { vocab[i % vocab.len()] } else { *r.pick(&vocab) });
                    }
                    if idx % cfg.threads.max(1) != w.id || w.stopped() {
                        continue;
                    }
                    w.run_case(&Case::new("inplace").text(s).num(width));
                    k += 1;
                }
            }
        }
        *w.stats.counters.entry("single_paragraph_word_ladder".to_string()).or_insert(0) += k;
        if w.id == 0 {
            w.note_subrun("word-ladder", &format!("single paragraphs of N words, N in {:?} x widths {{7,20,30,80}} x 2 vocabular orders (sharded)", ns), (ns.len() * 8) as u64);
        }
    }
    // stress: one long text per worker
    if cfg.thorough || w.id < 4 {
        let mut r = Rng::stream(cfg.seed, &["C17", "stress"], w.id as u64);
        let mut s = String::new();
        let target = if cfg.thorough { 1_000_000 } else { 100_000 };
        while s.len() < target {
            s.push_str(&gen_text(&mut r, TextDomain::Clean));
            s.push(' ');
        }
        w.run_case(&Case::new("inplace").text(s).num(*r.pick(&[1usize, 10, 40, 80, 200])));
        *w.stats.counters.entry("stress_texts".to_string()).or_insert(0) += 1;
    }
}

pub fn prop() -> Prop {
    Prop {
        id: "C17",
        rule: "cases = hostile texts (multi-byte, several paragraphs, leading / trailing / interior space runs, dirty sequences) x boundary-directed widths incl. around the byte length and usize::MAX, + exhaustive small strings + long stress texts (10^5..10^6 bytes); after fill_inplace the string is compared byte-wise with the original and line-wise with wrap(original, documented options); non-trivial = at least one space became a newline; distinct = (break-count bucket, width bucket, non-ASCII, space runs, multi-paragraph, leading / trailing space)",
        gen,
        check,
        panic_is_violation: false,
        budget: (1800000, 48000000),
        extra: Some(extra),
        required: &["single_paragraph_word_ladder", "breaks_inserted", "multibyte_with_breaks", "space_runs_with_breaks", "multi_paragraph_with_breaks", "stress_texts"],
        known: None,
    }
}
