//! C11 — word finding is lossless and breaks exactly at the specified opportunities.

use super::common::*;
use crate::case::{Case, Sep};
use crate::gen::text::{Class, Mix};
use crate::json::J;
use crate::oracle::words::{ascii_boundaries, index_map, unicode_boundaries_stripped};
use crate::rng::Rng;
use crate::run::{Obs, Prop, RunCfg, Verdict, Worker};

fn gen(r: &mut Rng, _cfg: &RunCfg) -> Case {
    let mut line = match r.below(8) {
        0..=3 => gen_line(r, TextDomain::Clean),
        4..=5 => gen_line(r, TextDomain::Any),
        6 => {
            // lines with embedded CR / LF / U+2028
            let m = Mix::swarm(r, &[Class::Ascii, Class::Wide, Class::Zero, Class::Punct, Class::Space, Class::Para, Class::Clean, Class::Scalars, Class::Real, Class::RealStyled, Class::Repeat]);
            { let n = r.range(1, 12); m.text(r, n) }
        }
        _ => {
            // hyphen / soft hyphen rich, incl. trailing ones
            let m = Mix::swarm(r, &[Class::Ascii, Class::Punct, Class::Space, Class::Clean]);
            let mut s = { let n = r.range(1, 8); m.text(r, n) };
            s.push_str(*r.pick(&["-", "\u{ad}", "a-", "x\u{ad}", "--", "- ", "-\u{1b}[0m", "b-c", " -", "\u{ad} "]));
            s
        }
    };
    if r.chance(1, 10) {
        line.push_str(*r.pick(&[" ", "  ", "-", "\u{ad}"]));
    }
    let sep = if cfg!(feature = "ulb") && r.coin() { Sep::Unicode } else { Sep::Ascii };
    let mut o = crate::case::OptSpec::new(0);
    o.sep = sep;
    Case::new("find").text(line).opt(o)
}

pub fn check(case: &Case, obs: &mut Obs) -> Verdict {
    let line = case.t(0);
    let o = case.o(0);
    if !o.available() {
        return Verdict::Skipped("separator not available in this feature set");
    }
    let words: Vec<textwrap::core::Word> = o.sep_build().find_words(line).collect();
    obs.calls += 1;
    if obs.want_sample {
        obs.out = Some(J::Arr(words.iter().take(16).map(|w| J::s(&format!("{}|{}", w.word, w.whitespace))).collect()));
    }
    // lossless, contiguous
    let mut pos = 0usize;
    let mut starts = Vec::new();
    for (k, w) in words.iter().enumerate() {
        let end = pos + w.word.len() + w.whitespace.len();
        if line.get(pos..pos + w.word.len()) != Some(w.word) || line.get(pos + w.word.len()..end) != Some(w.whitespace) {
            return Verdict::Violated(format!("word {} ({:?},{:?}) is not the next piece of the line at byte {}", k, w.word, w.whitespace, pos));
        }
        if w.word.as_ptr() as usize != line.as_ptr() as usize + pos && !w.word.is_empty() {
            return Verdict::Violated(format!("word {} is not a sub-slice of the line at byte {}", k, pos));
        }
        if !w.whitespace.bytes().all(|b| b == b' ') {
            return Verdict::Violated(format!("whitespace {:?} of word {} is not made of spaces only", w.whitespace, k));
        }
        if w.word.ends_with(' ') {
            return Verdict::Violated(format!("word {:?} ends in a space", w.word));
        }
        if w.width != textwrap::core::display_width(w.word) {
            return Verdict::Violated(format!("cached width {} of {:?} != display width {}", w.width, w.word, textwrap::core::display_width(w.word)));
        }
        if !w.penalty.is_empty() {
            return Verdict::Violated(format!("word {:?} has penalty {:?}", w.word, w.penalty));
        }
        if k > 0 {
            starts.push(pos);
        }
        if w.word.is_empty() && w.whitespace.is_empty() {
            return Verdict::Violated(format!("empty word {} yielded", k));
        }
        pos = end;
    }
    if pos != line.len() {
        return Verdict::Violated(format!("words cover {} of {} bytes", pos, line.len()));
    }
    let clean = crate::oracle::ansi::wellformed_or_two_char(line);
    match o.sep {
        Sep::Ascii => {
            let want = ascii_boundaries(line);
            if starts != want {
                return Verdict::Violated(format!("ASCII separator boundaries {:?}, expected space->non-space positions {:?}", starts, want));
            }
        }
        Sep::Unicode => {
            if clean {
                let map = index_map(line);
                let want = unicode_boundaries_stripped(&map.stripped);
                let mut got = Vec::with_capacity(starts.len());
                for s in &starts {
                    if map.inside_sequence(*s) {
                        return Verdict::Violated(format!("boundary at byte {} falls inside an escape sequence", s));
                    }
                    match map.to_stripped(*s, line.len()) {
                        Some(x) => got.push(x),
                        None => return Verdict::Violated(format!("boundary at byte {} is not at a character/sequence start", s)),
                    }
                }
                if got != want {
                    return Verdict::Violated(format!(
                        "Unicode separator boundaries (stripped coordinates) {:?}, expected UAX#14 opportunities minus hyphen ones {:?} for stripped line {:?}",
                        got, want, map.stripped
                    ));
                }
                if line.contains('\u{1b}') {
                    obs.bump("unicode_with_sequences");
                }
                let st = &map.stripped;
                if st.ends_with('-') || st.ends_with('\u{ad}') {
                    obs.bump("unicode_trailing_hyphen");
                }
                if st.contains('-') || st.contains('\u{ad}') {
                    obs.bump("unicode_hyphen_inside");
                }
                obs.bump("unicode_boundary_checked");
            } else {
                obs.bump("unicode_dirty_lossless_only");
            }
        }
    }
    if words.len() >= 2 {
        obs.bump("multi_word");
    }
    Verdict::held(
        words.len() >= 2,
        h(&[
            (o.sep == Sep::Unicode) as u64,
            bucket(words.len()),
            clean as u64,
            line.contains('\u{1b}') as u64,
            line.contains("  ") as u64,
            line.starts_with(' ') as u64,
            line.ends_with(' ') as u64,
            line.contains('-') as u64,
            !line.is_ascii() as u64,
        ]),
    )
}

fn extra(cfg: &RunCfg, w: &mut Worker) {
    // exhaustive short lines over a separator-relevant alphabet
    let alphabet: &[&str] = &["a", " ", "-", "\u{ad}", "你", "\u{1b}[m", ")", "\u{200b}", ".", "\u{1b}7"];
    let max = if cfg.thorough { 6 } else { 4 };
    let threads = cfg.threads.max(1);
    let mut idx = 0usize;
    let mut n = 0u64;
    let mut todo = Vec::new();
    crate::gen::text::enumerate_strings(alphabet, max, |s| {
        if idx % threads == w.id {
            todo.push(s.to_string());
        }
        idx += 1;
    });
    for s in todo {
        if w.stopped() {
            break;
        }
        for sep in [Sep::Ascii, Sep::Unicode] {
            let mut o = crate::case::OptSpec::new(0);
            o.sep = sep;
            if !o.available() {
                continue;
            }
            w.run_case(&Case::new("find").text(s.clone()).opt(o));
            n += 1;
        }
    }
    if w.id == 0 {
        w.note_exhaustive(
            "short-lines",
            &format!("all lines of <= {} tokens over {{a,' ','-',SHY,你,ESC[m,')',ZWSP,'.',ESC 7}} x both separators (sharded; this worker ran {})", max, n),
            crate::gen::text::enumerate_count(alphabet.len(), max) as u64 * 2,
        );
    }
}

pub fn prop() -> Prop {
    Prop {
        id: "C11",
        rule: "cases = single lines over the hostile alphabet (clean and dirty sequences, embedded CR/LF/U+2028, hyphen- and soft-hyphen-rich lines incl. trailing ones) x both separators + exhaustive short lines; each call's words are checked for losslessness, space-only whitespace, cached width, empty penalty, and the boundary set against the ASCII rule / unicode-linebreak called directly on the harness-stripped line (clean lines); non-trivial = >= 2 words; distinct = (separator, word-count bucket, clean, has sequences, double space, leading/trailing space, hyphen, non-ASCII)",
        gen,
        check,
        panic_is_violation: false,
        budget: (1800000, 60000000),
        extra: Some(extra),
        required: &["multi_word"],
        known: None,
    }
}
