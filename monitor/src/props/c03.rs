//! C03 — optimal-fit returns a minimum-cost arrangement under the documented penalties.

use super::c06::check_partition;
use super::common::*;
use super::textlevel::*;
use crate::case::{Algo, Case, Frag, Pen};
use crate::gen::frag::{self, Scale};
use crate::gen::opts::OptDomain;
use crate::json::J;
use crate::oracle::algos::{greedy, CostModel};
use crate::rng::Rng;
use crate::run::{Obs, Prop, RunCfg, Verdict, Worker};
use std::collections::HashMap;

const DOM: OptDomain = OptDomain {
    allow_custom_split: true,
    allow_optimal: true,
    allow_random_pen: false,
    hostile_pen: false,
    allow_indents: true,
    allow_unicode: true,
};

fn gen(r: &mut Rng, _cfg: &RunCfg) -> Case {
    if r.chance(3, 5) {
        let mut c = Case::new("frag");
        let scale = if r.chance(1, 3) { Scale::Large } else { Scale::Small };
        c.frags = frag::finite_frags(r, scale, 60, true);
        c.lws = loop {
            let l = frag::line_widths(r, scale, 2, &c.frags);
            if !l.is_empty() || r.chance(1, 8) {
                break l;
            }
        };
        c.pen = Some(frag::exact_penalties(r, scale));
        c
    } else {
        let text = gen_text(r, TextDomain::Any);
        let mut o = gen_opts(r, DOM, &text, true);
        let pen = if r.coin() { Pen::DEFAULT } else { frag::exact_penalties(r, Scale::Small) };
        o.algo = Algo::Optimal(pen);
        wrap_case(if r.chance(1, 4) { "text_fill" } else { "text" }, text, o)
    }
}

/// The statement's preconditions on a fragment list.
fn precondition(frags: &[Frag]) -> bool {
    for k in 0..frags.len() {
        let f = &frags[k];
        if !(f.w.fract() == 0.0 && f.ws.fract() == 0.0 && f.pw.fract() == 0.0) || f.w < 0.0 || f.ws < 0.0 || f.pw < 0.0 {
            return false;
        }
        if k + 1 < frags.len() && f.pw > frags[k + 1].w {
            return false;
        }
    }
    true
}

/// Minimum cost (under the given clamp reading) with all cross-checks.
fn reference_min(frags: &[Frag], lws: &[f64], pen: Pen, clamp: bool, obs: &mut Obs) -> Result<f64, String> {
    let mut m = CostModel::new(frags, lws, pen);
    m.clamp = clamp;
    let a = m.min_two_widths();
    let n = frags.len();
    if n <= 40 && (n <= 16 || obs.calls % 4 == 0) {
        let b = m.min_line_count_dp();
        if a != b {
            return Err(format!("harness: O(n^2) DP {} != O(n^3) DP {}", a, b));
        }
        obs.bump("crosschecked_by_line_count_dp");
    }
    if n <= 12 {
        let c = m.min_brute();
        if a != c {
            return Err(format!("harness: DP {} != brute force {}", a, c));
        }
        obs.bump("crosschecked_by_brute_force");
    }
    Ok(a)
}

fn check_frag(case: &Case, obs: &mut Obs) -> Verdict {
    #[cfg(not(feature = "smawk"))]
    {
        let _ = (case, obs);
        return Verdict::Skipped("optimal-fit not available in this feature set");
    }
    #[cfg(feature = "smawk")]
    {
        let frags = &case.frags;
        let lws = &case.lws;
        let pen = case.pen.unwrap_or(Pen::DEFAULT);
        if !precondition(frags) || lws.len() > 2 || lws.iter().any(|w| w.fract() != 0.0 || *w < 0.0) {
            return Verdict::Skipped("outside the statement's preconditions");
        }
        if frags.is_empty() {
            return Verdict::Skipped("no fragments");
        }
        let lines = match textwrap::wrap_algorithms::wrap_optimal_fit(frags, lws, &pen.build()) {
            Ok(l) => l,
            Err(_) => return Verdict::Inconclusive("optimal-fit returned an overflow error on usize-range input (reported under C04)".to_string()),
        };
        obs.calls += 1;
        let parts = match check_partition(frags, &lines) {
            Ok(p) => p,
            Err(_) => return Verdict::Skipped("not a partition (reported under C06)"),
        };
        if obs.want_sample {
            obs.out = Some(J::Arr(parts.iter().map(|p| J::u(*p)).collect()));
        }
        let mut ok = false;
        let mut detail = String::new();
        let needs_both = lws.iter().any(|w| *w < 1.0) || lws.is_empty();
        for clamp in [true, false] {
            if !clamp && !needs_both {
                continue;
            }
            let mut m = CostModel::new(frags, lws, pen);
            m.clamp = clamp;
            let got = m.total(&parts);
            let min = match reference_min(frags, lws, pen, clamp, obs) {
                Ok(m) => m,
                Err(e) => return Verdict::Inconclusive(e),
            };
            if !(min.abs() < 9.0e15 && got.abs() < 9.0e15) {
                return Verdict::Skipped("costs not exactly representable");
            }
            let ff = m.total(&greedy(frags, lws));
            if got == min && got <= ff {
                ok = true;
                break;
            }
            detail = format!("returned arrangement {:?} costs {} but the minimum is {} (first-fit arrangement costs {})", parts, got, min, ff);
        }
        if !ok {
            return Verdict::Violated(format!("wrap_optimal_fit: {}", detail));
        }
        let m = CostModel::new(frags, lws, pen);
        let differs_from_greedy = greedy(frags, lws) != parts;
        if parts.len() >= 2 {
            obs.bump("frag_multi_line");
        }
        if differs_from_greedy {
            obs.bump("frag_beats_first_fit_arrangement");
        }
        if lws.len() == 2 && lws[0] != lws[1] && parts.len() >= 2 {
            obs.bump("frag_two_line_widths");
        }
        if frags.iter().any(|f| f.pw > 0.0) && parts.len() >= 2 {
            obs.bump("frag_with_penalty_widths");
        }
        let _ = m;
        Verdict::held(
            parts.len() >= 2,
            h(&[0, bucket(frags.len()), bucket(parts.len()), lws.len() as u64, pen.is_default() as u64, differs_from_greedy as u64, frags.iter().any(|f| f.pw > 0.0) as u64, frags.iter().any(|f| f.w == 0.0) as u64]),
        )
    }
}

/// Text level: exists a parse of the returned lines into per-paragraph
/// partitions each of which has minimum cost.
struct Parse<'a, 'l> {
    /// per paragraph, per variant: (para, frags, lws, min cost under clamp, min cost without clamp)
    paras: Vec<Vec<(Para<'a>, Vec<Frag>, [f64; 2], f64, f64, bool)>>,
    bodies: Vec<&'l str>,
    pen: Pen,
    memo: HashMap<(usize, usize), bool>,
    /// per paragraph: the whole paragraph as one line, where that is admissible (see `whole_line_alternative`)
    whole: Vec<Option<&'a str>>,
}

impl<'a, 'l> Parse<'a, 'l> {
    /// All line indices j such that bodies[i..j] parse as a partition of the
    /// variant's fragments whose cost equals the minimum.
    fn ends(&self, i: usize, p: usize, v: usize) -> Vec<usize> {
        let (para, frags, lws, min_c, min_u, sentinel) = &self.paras[p][v];
        let shift = *sentinel as usize;
        let n = frags.len();
        if para.words.is_empty() {
            return if i < self.bodies.len() && self.bodies[i].is_empty() { vec![i + 1] } else { vec![] };
        }
        let mut out = Vec::new();
        for clamp in [true, false] {
            let min = if clamp { *min_c } else { *min_u };
            if !clamp && min_c == min_u && lws.iter().all(|w| *w >= 1.0) {
                continue;
            }
            let mut m = CostModel::new(frags, &lws[..], self.pen);
            m.clamp = clamp;
            // dp[(line offset, frag idx)] = min cost
            let mut cur: HashMap<usize, f64> = HashMap::new();
            cur.insert(0, 0.0);
            let mut l = i;
            while !cur.is_empty() && l < self.bodies.len() {
                let mut next: HashMap<usize, f64> = HashMap::new();
                for (&k, &c) in &cur {
                    for k2 in (k + 1)..=n {
                        // fragments k..k2 (in variant indexing); words are shifted by the sentinel
                        let wa = k.saturating_sub(shift);
                        let wb = k2.saturating_sub(shift);
                        let matches = if wa == wb { self.bodies[l].is_empty() } else { para.matches(wa, wb, self.bodies[l]) };
                        if !matches {
                            // bodies grow monotonically with k2: once the rendering is longer than the body we can stop
                            if wb > wa && para.render(wa, wb).0.len() > self.bodies[l].len() {
                                break;
                            }
                            continue;
                        }
                        let c2 = c + m.line_cost(k, k2, l - i);
                        let e = next.entry(k2).or_insert(f64::INFINITY);
                        if c2 < *e {
                            *e = c2;
                        }
                    }
                }
                l += 1;
                if let Some(c) = next.get(&n) {
                    if *c == min && !out.contains(&l) {
                        out.push(l);
                    }
                }
                next.remove(&n);
                cur = next;
            }
        }
        out
    }

    fn go(&mut self, i: usize, p: usize) -> bool {
        if p == self.paras.len() {
            return i == self.bodies.len();
        }
        if let Some(r) = self.memo.get(&(i, p)) {
            return *r;
        }
        let mut res = false;
        if let Some(w) = self.whole[p] {
            if i < self.bodies.len() && self.bodies[i].trim_end_matches(' ') == w && self.go(i + 1, p + 1) {
                self.memo.insert((i, p), true);
                return true;
            }
        }
        'outer: for v in 0..self.paras[p].len() {
            for j in self.ends(i, p, v) {
                if self.go(j, p + 1) {
                    res = true;
                    break 'outer;
                }
            }
        }
        self.memo.insert((i, p), res);
        res
    }
}

fn check_text(case: &Case, obs: &mut Obs) -> Verdict {
    let o = case.o(0);
    either_reading(case.t(0), o.le(), obs, |universal, obs| check_text_reading(case, obs, universal))
}

fn check_text_reading(case: &Case, obs: &mut Obs, universal: bool) -> Verdict {
    let text = case.t(0);
    let o = case.o(0);
    if !o.available() {
        return Verdict::Skipped("options not available in this feature set");
    }
    let pen = match o.algo {
        Algo::Optimal(p) => p,
        _ => return Verdict::Skipped("not optimal-fit"),
    };
    let built = o.build();
    let lines: Vec<std::borrow::Cow<str>> = if case.sub == "text_fill" {
        // "wrap/fill ... produce": the same claim for fill's lines (fill has its own fast path)
        obs.bump("text_fill_lines");
        o.fill(text).split(o.le()).map(|l| std::borrow::Cow::Owned(l.to_string())).collect()
    } else if o.by_ref(text) {
        textwrap::wrap(text, &built)
    } else {
        textwrap::wrap(text, o.build())
    };
    obs.calls += 1;
    if obs.want_sample {
        obs.out = Some(lines_json(&lines));
    }
    let bodies = match bodies(&lines, o) {
        Some(b) => b,
        None => return Verdict::Skipped("a line lacks its indent (reported under C08)"),
    };
    let splitter = o.split_build();
    let mut paras = Vec::new();
    let mut whole = Vec::new();
    for (k, para) in split_paragraphs(text, o.le(), universal).into_iter().enumerate() {
        let a = para_fragments(para, o, &splitter);
        whole.push(whole_line_alternative(&a, o, k == 0));
        if !a.lossless {
            return Verdict::Skipped("pipeline fragments are not lossless (reported under C11/C12)");
        }
        let fa = a.frags();
        if !precondition(&fa) {
            return Verdict::Skipped("paragraph fragments violate the precondition penalty width <= next width (custom splitter)");
        }
        if fa.len() > 1500 {
            return Verdict::Skipped("paragraph too long for the text-level parse");
        }
        let lws = para_line_widths(o, k == 0);
        let mut variants = Vec::new();
        let mins = |f: &[Frag], obs: &mut Obs| -> Result<(f64, f64), String> {
            if f.is_empty() {
                return Ok((0.0, 0.0));
            }
            let a = reference_min(f, &lws, pen, true, obs)?;
            let b = if lws.iter().any(|w| *w < 1.0) { reference_min(f, &lws, pen, false, obs)? } else { a };
            Ok((a, b))
        };
        let (mc, mu) = match mins(&fa, obs) {
            Ok(x) => x,
            Err(e) => return Verdict::Inconclusive(e),
        };
        if !fa.is_empty() {
            let mut fb = Vec::with_capacity(fa.len() + 1);
            fb.push(Frag { w: 0.0, ws: 0.0, pw: 0.0 });
            fb.extend(fa.iter().copied());
            let (bc, bu) = match mins(&fb, obs) {
                Ok(x) => x,
                Err(e) => return Verdict::Inconclusive(e),
            };
            variants.push((para_fragments(para, o, &splitter), fb, lws, bc, bu, true));
        }
        variants.insert(0, (a, fa, lws, mc, mu, false));
        paras.push(variants);
    }
    let nparas = paras.len();
    let mut p = Parse { paras, bodies, pen, memo: HashMap::new(), whole };
    if !p.go(0, 0) {
        return Verdict::Violated(format!(
            "no reading of the returned lines {:?} as per-paragraph arrangements of the paragraph fragments has minimum cost (penalties {:?})",
            p.bodies, pen
        ));
    }
    let n = lines.len();
    if n >= 2 {
        obs.bump("text_multi_line");
    }
    if n > nparas {
        obs.bump("text_wrapped_paragraph");
    }
    if !pen.is_default() && n > nparas {
        obs.bump("text_custom_penalties");
    }
    if n > nparas && textwrap::core::display_width(&o.ii) != textwrap::core::display_width(&o.si) {
        obs.bump("text_different_indent_widths");
    }
    Verdict::held(n > nparas, h(&[1, o.shape(), bucket(n), bucket(nparas), pen.is_default() as u64]))
}

pub fn check(case: &Case, obs: &mut Obs) -> Verdict {
    if case.sub == "frag" {
        check_frag(case, obs)
    } else {
        check_text(case, obs)
    }
}

fn extra(cfg: &RunCfg, w: &mut Worker) {
    if !cfg!(feature = "smawk") {
        return;
    }
    corpus_subrun(cfg, w, |i, paras, width, v| {
        if paras[i].len() > 500 {
            return None;
        }
        grid_variant(v, i, width, false).map(|mut o| {
            o.algo = Algo::Optimal(if v % 2 == 0 { Pen::DEFAULT } else { Pen { nline: 10, overflow: 300, frac: 3, short: 40, hyphen: 5 } });
            Case::new("text").text(paras[i].clone()).opt(o)
        })
    });
    // long sequences: hundreds of lines with two different line widths (line-number bookkeeping over many lines)
    {
        let mut r = Rng::stream(cfg.seed, &["C03", "long"], w.id as u64);
        let reps = if cfg.thorough { 6 } else if w.id < 8 { 1 } else { 0 };
        for _ in 0..reps {
            let n = r.range(300, 1400);
            let mut c = Case::new("frag");
            c.frags = (0..n).map(|_| Frag { w: r.range(1, 3) as f64, ws: 1.0, pw: 0.0 }).collect();
            let a = r.range(3, 9) as f64;
            let b = r.range(3, 12) as f64;
            c.lws = vec![a, b];
            c.pen = Some(if r.coin() { Pen::DEFAULT } else { frag::exact_penalties(&mut r, Scale::Small) });
            w.run_case(&c);
            *w.stats.counters.entry("long_sequences".to_string()).or_insert(0) += 1;
        }
        if cfg.thorough || w.id < 4 {
            // one long paragraph through wrap() with indents of different widths
            let words = r.range(300, 700);
            let mut text = String::new();
            for _ in 0..words {
                text.push_str(*r.pick(&["aaa ", "bb ", "c ", "dddd "]));
            }
            let mut o = crate::case::OptSpec::new(r.range(6, 12));
            o.ii = "    ".to_string();
            o.si = if r.coin() { String::new() } else { "é".to_string() };
            o.algo = Algo::Optimal(Pen::DEFAULT);
            w.run_case(&wrap_case("text", text, o));
            *w.stats.counters.entry("long_paragraphs".to_string()).or_insert(0) += 1;
        }
    }
    // exhaustive small fragments satisfying the precondition
    let max = if cfg.thorough { 5 } else { 4 };
    let mut choices = Vec::new();
    for w_ in [0.0, 1.0, 2.0, 5.0] {
        for ws in [0.0, 1.0] {
            for pw in [0.0, 1.0] {
                choices.push(Frag { w: w_, ws, pw });
            }
        }
    }
    let k = choices.len();
    let threads = cfg.threads.max(1);
    let mut idx = 0usize;
    let mut n = 0u64;
    let pens = [Pen::DEFAULT, Pen { nline: 0, overflow: 3, frac: 2, short: 7, hyphen: 1 }, Pen { nline: 5, overflow: 0, frac: 0, short: 0, hyphen: 40 }];
    for len in 1..=max {
        for code in 0..k.pow(len as u32) {
            idx += 1;
            if idx % threads != w.id {
                continue;
            }
            if w.stopped() {
                return;
            }
            let mut c = code;
            let mut frags = Vec::new();
            for _ in 0..len {
                frags.push(choices[c % k]);
                c /= k;
            }
            if !precondition(&frags) {
                continue;
            }
            for lws in [vec![3.0], vec![5.0, 2.0], vec![1.0, 6.0], vec![0.0]] {
                for pen in pens {
                    let mut case = Case::new("frag");
                    case.frags = frags.clone();
                    case.lws = lws.clone();
                    case.pen = Some(pen);
                    w.run_case(&case);
                    n += 1;
                }
            }
        }
    }
    if w.id == 0 {
        w.note_exhaustive(
            "small-fragments",
            &format!("every fragment sequence of length 1..={} over widths {{0,1,2,5}} x whitespace {{0,1}} x penalty {{0,1}} that satisfies the precondition x 4 line-width lists x 3 penalty settings (sharded; this worker ran {})", max, n),
            n * threads as u64,
        );
    }
}

pub fn prop() -> Prop {
    Prop {
        id: "C03",
        rule: "fragment level (3/5): integer fragment sequences of length 1..60 (widths 0..12 or up to 2^20, zero-width fragments, penalty width <= next width enforced by the generator), 0..2 line widths, default and random non-negative penalties small enough for exact f64 costs; cost(returned) must equal the minimum of an independent cost model computed by an O(n^2) DP, cross-checked by an O(n^3) line-count DP (n <= 40) and brute force (n <= 12), and must not exceed the first-fit arrangement's cost. text level (2/5): hostile texts wrapped with optimal-fit (default / random penalties, all separators / splitters, indents); the returned lines must admit a reading as per-paragraph minimum-cost arrangements of the pipeline fragments. + exhaustive small fragments. non-trivial = >= 2 lines (fragment level) / some paragraph wrapped (text level); distinct = (level, length / option shape, line bucket, line widths, default penalties, differs from greedy, penalty widths, zero widths)",
        gen,
        check,
        panic_is_violation: false,
        budget: (1500000, 48000000),
        extra: Some(extra),
        required: &["text_fill_lines", "long_sequences", "long_paragraphs", "frag_multi_line", "frag_beats_first_fit_arrangement", "frag_two_line_widths", "frag_with_penalty_widths", "crosschecked_by_line_count_dp", "crosschecked_by_brute_force", "text_wrapped_paragraph", "text_custom_penalties", "text_different_indent_widths"],
        known: None,
    }
}
