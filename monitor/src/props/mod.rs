pub mod common;
pub mod c01;
pub mod c02;
pub mod c08;
pub mod c09;
pub mod c10;
pub mod c11;
pub mod c12;
pub mod c13;
pub mod c14;

use crate::run::Prop;

pub fn registry() -> Vec<Prop> {
    vec![c01::prop(), c02::prop(), c08::prop(), c09::prop(), c10::prop(), c11::prop(), c12::prop(), c13::prop(), c14::prop()]
}

pub fn find(id: &str) -> Option<Prop> {
    registry().into_iter().find(|p| p.id == id)
}
