//! C07 — first-fit is greedy-maximal.

use super::c06::check_partition;
use super::common::*;
use super::textlevel::*;
use crate::case::{Algo, Case, Frag};
use crate::gen::frag::{self, Scale};
use crate::gen::opts::OptDomain;
use crate::json::J;
use crate::oracle::algos::{check_greedy, greedy};
use crate::rng::Rng;
use crate::run::{Obs, Prop, RunCfg, Verdict, Worker};
use std::collections::HashSet;

const DOM: OptDomain = OptDomain {
    allow_custom_split: true,
    allow_optimal: false,
    allow_random_pen: false,
    hostile_pen: false,
    allow_indents: true,
    allow_unicode: true,
};

fn gen(r: &mut Rng, _cfg: &RunCfg) -> Case {
    if r.coin() {
        if r.chance(1, 5) {
            // through WrapAlgorithm::FirstFit.wrap(&[Word], &[usize]) with up to 12 listed widths
            let mut c = Case::new("algo");
            c.frags = frag::finite_frags(r, Scale::Small, 60, false);
            for f in c.frags.iter_mut() {
                f.ws = f.ws.min(8.0);
                f.pw = f.pw.min(1.0);
            }
            let max = if r.coin() { 12 } else { 3 };
            c.lws = frag::line_widths(r, Scale::Small, max, &c.frags);
            return c;
        }
        let mut c = Case::new("frag");
        let scale = *r.pick(&[Scale::Small, Scale::Small, Scale::Dyadic, Scale::Large]);
        c.frags = frag::finite_frags(r, scale, 60, false);
        let max = if r.chance(1, 4) { 12 } else { 3 };
        c.lws = frag::line_widths(r, scale, max, &c.frags);
        c
    } else {
        let text = gen_text(r, TextDomain::Any);
        let mut o = gen_opts(r, DOM, &text, true);
        o.algo = Algo::FirstFit;
        wrap_case(if r.chance(1, 4) { "text_fill" } else { "text" }, text, o)
    }
}

const XS: &str = "xxxxxxxxxxxxxxxxxxxxxxxxxxxxxxxxxxxxxxxxxxxxxxxxxxxxxxxxxxxxxxxx";
const SP: &str = "                ";

/// Words whose cached width / whitespace / penalty equal the given small integer fragments.
pub fn words_for(frags: &[Frag]) -> Option<Vec<textwrap::core::Word<'static>>> {
    let mut v = Vec::with_capacity(frags.len());
    for f in frags {
        if f.w.fract() != 0.0 || f.ws.fract() != 0.0 || f.w < 0.0 || f.w > 64.0 || f.ws < 0.0 || f.ws > 16.0 || !(f.pw == 0.0 || f.pw == 1.0) {
            return None;
        }
        v.push(textwrap::core::Word { word: &XS[..f.w as usize], whitespace: &SP[..f.ws as usize], penalty: if f.pw == 1.0 { "-" } else { "" }, width: f.w as usize });
    }
    Some(v)
}

/// Partition by pointer for &[Word] results.
pub fn word_partition(words: &[textwrap::core::Word], lines: &[&[textwrap::core::Word]]) -> Result<Vec<usize>, String> {
    if words.is_empty() {
        return if lines.len() == 1 && lines[0].is_empty() { Ok(vec![0]) } else { Err("empty input must give one empty line".into()) };
    }
    let mut pos = 0;
    let mut parts = Vec::new();
    for l in lines {
        if l.is_empty() || pos >= words.len() || l.as_ptr() != words[pos..].as_ptr() || pos + l.len() > words.len() {
            return Err(format!("line starting at fragment {} is not the next non-empty run", pos));
        }
        pos += l.len();
        parts.push(l.len());
    }
    if pos != words.len() {
        return Err("lines do not cover the input".into());
    }
    Ok(parts)
}

fn check_frag(case: &Case, obs: &mut Obs) -> Verdict {
    let parts = if case.sub == "algo" {
        let words = match words_for(&case.frags) {
            Some(w) => w,
            None => return Verdict::Skipped("fragments not representable as Words"),
        };
        if case.lws.iter().any(|w| w.fract() != 0.0 || *w < 0.0) {
            return Verdict::Skipped("line widths not representable as usize");
        }
        let lws: Vec<usize> = case.lws.iter().map(|w| *w as usize).collect();
        let lines = textwrap::WrapAlgorithm::FirstFit.wrap(&words, &lws);
        obs.calls += 1;
        if lws.len() > 8 {
            obs.bump("algo_wrap_more_than_8_widths");
        }
        match word_partition(&words, &lines) {
            Ok(p) => p,
            Err(_) => return Verdict::Skipped("not a partition (reported under C06)"),
        }
    } else {
        let lines = textwrap::wrap_algorithms::wrap_first_fit(&case.frags, &case.lws);
        obs.calls += 1;
        match check_partition(&case.frags, &lines) {
            Ok(p) => p,
            Err(_) => return Verdict::Skipped("not a partition (reported under C06)"),
        }
    };
    if case.frags.is_empty() {
        return Verdict::held(false, 0);
    }
    if obs.want_sample {
        obs.out = Some(J::Arr(parts.iter().map(|p| J::u(*p)).collect()));
    }
    if let Err(e) = check_greedy(&case.frags, &case.lws, &parts) {
        return Verdict::Violated(format!("{}: {}", if case.sub == "algo" { "WrapAlgorithm::FirstFit.wrap" } else { "wrap_first_fit" }, e));
    }
    if parts.len() >= 2 {
        obs.bump("frag_multi_line");
    }
    if case.lws.len() >= 2 && parts.len() >= 2 {
        obs.bump("frag_several_line_widths");
    }
    if case.frags.iter().any(|f| f.pw > 0.0) && parts.len() >= 2 {
        obs.bump("frag_with_penalties");
    }
    Verdict::held(
        parts.len() >= 2,
        h(&[(case.sub == "algo") as u64 * 7, bucket(case.frags.len()), bucket(parts.len()), case.lws.len() as u64, case.frags.iter().any(|f| f.pw > 0.0) as u64, case.frags.iter().any(|f| f.w.fract() != 0.0) as u64]),
    )
}

struct TextSearch<'a, 'l> {
    paras: Vec<[Option<Para<'a>>; 2]>, // variant A, variant B (with sentinel)
    exp: Vec<[Option<Vec<(usize, usize)>>; 2]>,
    bodies: Vec<&'l str>,
    failed: HashSet<(usize, usize)>,
    /// per paragraph: the whole paragraph as one line, where that is admissible (see `whole_line_alternative`)
    whole: Vec<Option<&'a str>>,
}

impl<'a, 'l> TextSearch<'a, 'l> {
    fn go(&mut self, i: usize, p: usize) -> bool {
        if p == self.paras.len() {
            return i == self.bodies.len();
        }
        if self.failed.contains(&(i, p)) {
            return false;
        }
        for v in 0..2 {
            let (para, exp) = match (&self.paras[p][v], &self.exp[p][v]) {
                (Some(a), Some(b)) => (a, b),
                _ => continue,
            };
            if para.words.is_empty() {
                // empty paragraph: exactly one empty line
                if i < self.bodies.len() && self.bodies[i].is_empty() {
                    if self.go(i + 1, p + 1) {
                        return true;
                    }
                }
                continue;
            }
            if i + exp.len() > self.bodies.len() {
                continue;
            }
            let ok = exp.iter().enumerate().all(|(k, (a, b))| para.matches(*a, *b, self.bodies[i + k]));
            if ok {
                let n = exp.len();
                if self.go(i + n, p + 1) {
                    return true;
                }
            }
        }
        self.failed.insert((i, p));
        false
    }
}

fn check_text(case: &Case, obs: &mut Obs) -> Verdict {
    let o = case.o(0);
    either_reading(case.t(0), o.le(), obs, |universal, obs| check_text_reading(case, obs, universal))
}

fn check_text_reading(case: &Case, obs: &mut Obs, universal: bool) -> Verdict {
    let text = case.t(0);
    let o = case.o(0);
    if !o.available() {
        return Verdict::Skipped("options not available in this feature set");
    }
    if o.algo != Algo::FirstFit {
        return Verdict::Skipped("not first-fit");
    }
    let lines: Vec<std::borrow::Cow<str>> = if case.sub == "text_fill" {
        // the same claim for fill's lines (fill has its own fast path)
        o.fill(text).split(o.le()).map(|l| std::borrow::Cow::Owned(l.to_string())).collect()
    } else {
        textwrap::wrap(text, o.build())
    };
    obs.calls += 1;
    if case.sub == "text_fill" {
        obs.bump("text_fill_lines");
    }
    if obs.want_sample {
        obs.out = Some(lines_json(&lines));
    }
    let bodies = match bodies(&lines, o) {
        Some(b) => b,
        None => return Verdict::Skipped("a line lacks its indent (reported under C08)"),
    };
    let splitter = o.split_build();
    let mut paras = Vec::new();
    let mut exp = Vec::new();
    let mut whole = Vec::new();
    for (k, para) in split_paragraphs(text, o.le(), universal).into_iter().enumerate() {
        let a = para_fragments(para, o, &splitter);
        whole.push(whole_line_alternative(&a, o, k == 0));
        if !a.lossless {
            return Verdict::Skipped("pipeline fragments are not lossless (reported under C11/C12)");
        }
        let lws = para_line_widths(o, k == 0);
        let to_ranges = |parts: &[usize], shift: usize| -> Vec<(usize, usize)> {
            // convert line lengths into word index ranges; `shift` = 1 when a sentinel precedes the words
            let mut out = Vec::new();
            let mut pos = 0usize;
            for len in parts {
                let a = pos.saturating_sub(shift);
                let b = (pos + len).saturating_sub(shift);
                out.push((a, b));
                pos += len;
            }
            out
        };
        let fa = a.frags();
        let ea = to_ranges(&greedy(&fa, &lws), 0);
        // variant B: leading zero-width sentinel
        // (a leading zero-width sentinel is accepted whether or not break_words is on)
        let (pb, eb) = if !fa.is_empty() {
            let mut fb = Vec::with_capacity(fa.len() + 1);
            fb.push(Frag { w: 0.0, ws: 0.0, pw: 0.0 });
            fb.extend(fa.iter().copied());
            let parts = greedy(&fb, &lws);
            (Some(para_fragments(para, o, &splitter)), Some(to_ranges(&parts, 1)))
        } else {
            (None, None)
        };
        exp.push([Some(ea), eb]);
        paras.push([Some(a), pb]);
    }
    // a (0,0) range (sentinel alone on the first line) renders as the empty string
    struct Fix;
    let _ = Fix;
    let mut s = TextSearch { paras, exp, bodies, failed: HashSet::new(), whole };
    // make `matches` handle empty ranges: pre-filter by replacing (a,a) ranges with a marker
    let ok = {
        // custom go that understands empty ranges
        fn go2(s: &mut TextSearch, i: usize, p: usize) -> bool {
            if p == s.paras.len() {
                return i == s.bodies.len();
            }
            if s.failed.contains(&(i, p)) {
                return false;
            }
            if let Some(w) = s.whole[p] {
                if i < s.bodies.len() && s.bodies[i].trim_end_matches(' ') == w && go2(s, i + 1, p + 1) {
                    return true;
                }
            }
            for v in 0..2 {
                let n;
                let ok;
                {
                    let (para, exp) = match (&s.paras[p][v], &s.exp[p][v]) {
                        (Some(a), Some(b)) => (a, b),
                        _ => continue,
                    };
                    if para.words.is_empty() {
                        n = 1;
                        ok = i < s.bodies.len() && s.bodies[i].is_empty();
                    } else {
                        n = exp.len();
                        ok = i + n <= s.bodies.len()
                            && exp.iter().enumerate().all(|(k, (a, b))| if a == b { s.bodies[i + k].is_empty() } else { para.matches(*a, *b, s.bodies[i + k]) });
                    }
                }
                if ok && go2(s, i + n, p + 1) {
                    return true;
                }
            }
            s.failed.insert((i, p));
            false
        }
        go2(&mut s, 0, 0)
    };
    let _ = TextSearch::go;
    if !ok {
        let mut want: Vec<String> = Vec::new();
        for (p, e) in s.paras.iter().zip(s.exp.iter()) {
            if let (Some(para), Some(exp)) = (&p[0], &e[0]) {
                if para.words.is_empty() {
                    want.push(String::new());
                }
                for (a, b) in exp {
                    want.push(if a == b { String::new() } else { para.render(*a, *b).0.to_string() });
                }
            }
        }
        return Verdict::Violated(format!(
            "wrapped lines are not the greedy-maximal arrangement of the paragraph fragments: got {:?}, greedy arrangement {:?}",
            s.bodies, want
        ));
    }
    let n = lines.len();
    if n >= 2 {
        obs.bump("text_multi_line");
    }
    if n >= 2 && textwrap::core::display_width(&o.ii) != textwrap::core::display_width(&o.si) {
        obs.bump("text_different_indent_widths");
    }
    if text.split(o.le()).count() >= 2 && n >= 3 {
        obs.bump("text_multi_paragraph");
    }
    Verdict::held(n >= 2, h(&[1, o.shape(), bucket(n), bucket(text.split(o.le()).count())]))
}

pub fn check(case: &Case, obs: &mut Obs) -> Verdict {
    if case.sub == "frag" || case.sub == "algo" {
        check_frag(case, obs)
    } else {
        check_text(case, obs)
    }
}

fn extra(cfg: &RunCfg, w: &mut Worker) {
    corpus_subrun(cfg, w, |i, paras, width, v| {
        let text = if v == 3 && i + 1 < paras.len() { format!("{}\n{}", paras[i], paras[i + 1]) } else { paras[i].clone() };
        grid_variant(v, i, width, true).map(|o| Case::new("text").text(text).opt(o))
    });
    // exhaustive small fragments (as C06) for the greedy check
    let max = if cfg.thorough { 5 } else { 4 };
    let mut choices = Vec::new();
    for w_ in [0.0, 1.0, 2.0, 5.0] {
        for ws in [0.0, 1.0] {
            for pw in [0.0, 1.0] {
                choices.push(Frag { w: w_, ws, pw });
            }
        }
    }
    let k = choices.len();
    let threads = cfg.threads.max(1);
    let mut idx = 0usize;
    let mut n = 0u64;
    for len in 1..=max {
        for code in 0..k.pow(len as u32) {
            idx += 1;
            if idx % threads != w.id {
                continue;
            }
            if w.stopped() {
                return;
            }
            let mut c = code;
            let mut frags = Vec::new();
            for _ in 0..len {
                frags.push(choices[c % k]);
                c /= k;
            }
            for lws in [vec![], vec![3.0], vec![5.0, 2.0], vec![1.0, 6.0, 2.0]] {
                let mut case = Case::new("frag");
                case.frags = frags.clone();
                case.lws = lws;
                w.run_case(&case);
                n += 1;
            }
        }
    }
    // long sequences: many hundreds of lines, several line widths (state carried across many iterations)
    {
        let mut r = Rng::stream(cfg.seed, &["C07", "long"], w.id as u64);
        let reps = if cfg.thorough { 12 } else { 2 };
        for k in 0..reps {
            let n = r.range(300, 3000);
            let mut c = Case::new(if k % 2 == 0 { "frag" } else { "algo" });
            c.frags = (0..n).map(|_| Frag { w: r.range(0, 4) as f64, ws: r.range(0, 1) as f64, pw: r.below(2) as f64 }).collect();
            let nl = r.range(1, 12);
            c.lws = (0..nl).map(|_| r.range(2, 12) as f64).collect();
            w.run_case(&c);
            *w.stats.counters.entry("long_sequences".to_string()).or_insert(0) += 1;
        }
        // long paragraph at the text level with indents of different widths
        let words = r.range(300, 900);
        let mut text = String::new();
        for _ in 0..words {
            text.push_str(*r.pick(&["aaa ", "bb ", "c ", "dddd ", "你好 ", "e-mail "]));
        }
        let mut o = crate::case::OptSpec::new(r.range(6, 14));
        o.ii = "    ".to_string();
        o.si = if r.coin() { String::new() } else { "é".to_string() };
        o.split = crate::case::Split::Hyphen;
        w.run_case(&wrap_case("text", text, o));
        *w.stats.counters.entry("long_paragraphs".to_string()).or_insert(0) += 1;
    }
    // exhaustive small strings at the text level
    super::c01::exhaustive_strings(cfg, w, if cfg.thorough { 6 } else { 4 }, "text", true);
    if w.id == 0 {
        w.note_exhaustive(
            "small-fragments",
            &format!("every fragment sequence of length 1..={} over widths {{0,1,2,5}} x whitespace {{0,1}} x penalty {{0,1}} x 4 line-width lists (sharded; this worker ran {})", max, n),
            n * threads as u64,
        );
    }
}

pub fn prop() -> Prop {
    Prop {
        id: "C07",
        rule: "fragment level (1/2): integer (small / up to 2^20) and dyadic fragment sequences of length 0..60 with line-width lists of length 0..12 (also through WrapAlgorithm::FirstFit.wrap with Word fragments and usize widths); the returned partition is checked against the statement (every non-first fragment of a line fitted, the first fragment of the next line did not). text level (1/2): hostile texts (dirty sequences included) with first-fit options (all separators / splitters, break_words, indents of different widths); the returned lines must equal the greedy arrangement of the paragraph's pipeline fragments (with or without the library's leading sentinel, rendered penalty optional). + exhaustive small fragments and small strings. non-trivial = >= 2 lines; distinct = (level, length / option shape, line bucket, line-width list length / paragraph bucket, penalties, fractional)",
        gen,
        check,
        panic_is_violation: false,
        budget: (2400000, 72000000),
        extra: Some(extra),
        required: &["text_fill_lines", "long_sequences", "long_paragraphs", "algo_wrap_more_than_8_widths", "frag_multi_line", "frag_several_line_widths", "frag_with_penalties", "text_multi_line", "text_different_indent_widths", "text_multi_paragraph"],
        known: None,
    }
}
