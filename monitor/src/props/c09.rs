//! C09 — existing line breaks are kept and paragraphs wrap independently.

use super::common::*;
use crate::case::Case;
use crate::gen::opts::OptDomain;
use crate::rng::Rng;
use crate::run::{Obs, Prop, RunCfg, Verdict, Worker};

fn gen(r: &mut Rng, _cfg: &RunCfg) -> Case {
    let part = |r: &mut Rng| -> String {
        match r.below(10) {
            0 => String::new(),
            1 => "  ".to_string(),
            2..=6 => gen_line(r, TextDomain::Any),
            _ => gen_text(r, TextDomain::Any),
        }
    };
    let a = part(r);
    let a2 = part(r);
    let b = part(r);
    let all = format!("{} {} {}", a, a2, b);
    let o = gen_opts(r, OptDomain::ALL, &all, false);
    Case::new("rel").text(a).text(a2).text(b).opt(o)
}

fn owned(v: Vec<std::borrow::Cow<'_, str>>) -> Vec<String> {
    v.into_iter().map(|c| c.into_owned()).collect()
}

pub fn check(case: &Case, obs: &mut Obs) -> Verdict {
    let (a, a2, b) = (case.t(0), case.t(1), case.t(2));
    let o = case.o(0);
    if !o.available() {
        return Verdict::Skipped("options not available in this feature set");
    }
    let e = o.le();
    let ab = format!("{}{}{}", a, e, b);
    let a2b = format!("{}{}{}", a2, e, b);
    let wa = owned(textwrap::wrap(a, o.build()));
    let wa2 = owned(textwrap::wrap(a2, o.build()));
    let wab = owned(textwrap::wrap(&ab, o.build()));
    let wa2b = owned(textwrap::wrap(&a2b, o.build()));
    obs.calls += 4;
    if obs.want_sample {
        obs.out = Some(strs_json(&wab));
    }
    if wab.len() < wa.len() || wab[..wa.len()] != wa[..] {
        return Verdict::Violated(format!("wrap(a+E+b) does not begin with the lines of wrap(a): {:?} vs {:?}", wab, wa));
    }
    if wa2b.len() < wa2.len() || wa2b[..wa2.len()] != wa2[..] {
        return Verdict::Violated(format!("wrap(a'+E+b) does not begin with the lines of wrap(a'): {:?} vs {:?}", wa2b, wa2));
    }
    let rem = &wab[wa.len()..];
    let rem2 = &wa2b[wa2.len()..];
    if rem != rem2 {
        return Verdict::Violated(format!("lines for b depend on the preceding text: {:?} vs {:?}", rem, rem2));
    }
    if rem.is_empty() {
        return Verdict::Violated("no line at all for the paragraph(s) after the break".to_string());
    }
    if o.ii.is_empty() && o.si.is_empty() {
        let wb = owned(textwrap::wrap(b, o.build()));
        obs.calls += 1;
        if rem != &wb[..] {
            return Verdict::Violated(format!("with empty indents the lines for b differ from wrap(b): {:?} vs {:?}", rem, wb));
        }
        obs.bump("empty_indent_equals_wrap_b");
    }
    let paras = ab.split(e).count();
    if wab.len() < paras {
        return Verdict::Violated(format!("{} output lines for {} input paragraphs", wab.len(), paras));
    }
    // options passed by reference must behave like options passed by value
    {
        let built = o.build();
        let by_ref = owned(textwrap::wrap(&ab, &built));
        obs.calls += 1;
        if by_ref != wab {
            return Verdict::Violated(format!("wrap(text, &options) differs from wrap(text, options): {:?} vs {:?}", by_ref, wab));
        }
        let f_ref = textwrap::fill(&ab, &built);
        obs.calls += 1;
        if f_ref != wab.join(e) {
            return Verdict::Violated(format!("fill(text, &options) != wrap lines joined by the line ending: {:?} vs {:?}", f_ref, wab.join(e)));
        }
    }
    // fill of the single parts: a text without a line break can take fill's own byte-length shortcut
    for (part, wrapped) in [(a, &wa), (a2, &wa2)] {
        let f = o.fill(part);
        obs.calls += 1;
        if f != wrapped.join(e) {
            return Verdict::Violated(format!("fill({:?}) = {:?} != wrap lines joined by the line ending {:?}", part, f, wrapped.join(e)));
        }
        if !part.contains('\n') && part.len() < o.width && o.ii.is_empty() {
            obs.bump("fill_shortcut_taken");
        }
    }
    let filled = textwrap::fill(&ab, o.build());
    obs.calls += 1;
    if filled != wab.join(e) {
        return Verdict::Violated(format!("fill != wrap joined by the line ending: {:?} vs {:?}", filled, wab.join(e)));
    }
    // LF <-> CRLF substitution
    {
        let mut olf = o.clone();
        olf.crlf = false;
        let mut ocr = o.clone();
        ocr.crlf = true;
        let t_lf = format!("{}\n{}", a, b);
        let t_cr = t_lf.replace('\n', "\r\n");
        let f_lf = olf.fill(&t_lf);
        let f_cr = ocr.fill(&t_cr);
        obs.calls += 2;
        if f_cr != f_lf.replace('\n', "\r\n") {
            return Verdict::Violated(format!(
                "switching text and option from LF to CRLF changes more than the line ending: {:?} vs {:?}",
                f_cr,
                f_lf.replace('\n', "\r\n")
            ));
        }
    }
    let multi = rem.len() >= 2 || wa.len() >= 2;
    if multi {
        obs.bump("wrapped_paragraph");
    }
    if a.is_empty() || b.is_empty() {
        obs.bump("empty_side");
    }
    if a.contains(e) || b.contains(e) {
        obs.bump("multi_paragraph_side");
    }
    Verdict::held(
        multi,
        h(&[o.shape(), bucket(wa.len()), bucket(rem.len()), a.is_empty() as u64, b.is_empty() as u64, bucket(paras)]),
    )
}

fn extra(cfg: &RunCfg, w: &mut Worker) {
    // long-range interaction and size thresholds: texts around 2^8, 2^12, 2^16 bytes (and larger) before / after a
    // short paragraph, for every option combination of the grid (sharded over workers)
    {
        let mut r = Rng::stream(cfg.seed, &["C09", "huge"], w.id as u64);
        let sizes: &[usize] = if cfg.thorough { &[250, 256, 4090, 4096, 4100, 65530, 65536, 65600, 102_400, 300_000] } else { &[4096, 65600] };
        let grid = small_option_grid();
        let threads = cfg.threads.max(1);
        let mut idx = 0usize;
        for &target in sizes {
            for g in &grid {
                for variant in 0..2 {
                    idx += 1;
                    if idx % threads != w.id {
                        continue;
                    }
                    let mut big = String::new();
                    let many_paragraphs = variant == 1;
                    while big.len() < target {
                        big.push_str(&gen_line(&mut r, TextDomain::Clean));
                        big.push_str(if many_paragraphs && r.chance(1, 4) { "  \n" } else { " " });
                    }
                    let short = "To be, or not to be: that is the question   ".to_string();
                    let mut o = g.clone();
                    o.width = *r.pick(&[10usize, 20, 72]);
                    if r.chance(1, 4) {
                        o.si = "  ".to_string();
                    }
                    let case = if r.coin() {
                        Case::new("rel").text(big).text("x".to_string()).text(short).opt(o)
                    } else {
                        Case::new("rel").text(short).text("y".to_string()).text(big).opt(o)
                    };
                    w.run_case(&case);
                    *w.stats.counters.entry("huge_texts".to_string()).or_insert(0) += 1;
                }
            }
        }
    }
    corpus_subrun(cfg, w, |i, paras, width, v| {
        if i + 2 >= paras.len() {
            return None;
        }
        grid_variant(v, i, width, false).map(|o| Case::new("rel").text(paras[i].clone()).text(paras[i + 1].clone()).text(paras[i + 2].clone()).opt(o))
    });
}

pub fn prop() -> Prop {
    Prop {
        id: "C09",
        rule: "cases = triples (a, a', b) of possibly empty / multi-paragraph hostile texts with one option set; relations between wrap(a), wrap(a+E+b), wrap(a'+E+b), wrap(b), fill and the LF/CRLF substitution are checked (9-10 library calls per case, options passed by value and by reference); non-trivial = some side wraps to >= 2 lines; distinct = (option shape, line buckets of both sides, emptiness of a and b, paragraph bucket)",
        gen,
        check,
        panic_is_violation: false,
        budget: (900000, 24000000),
        extra: Some(extra),
        required: &["fill_shortcut_taken", "huge_texts", "wrapped_paragraph", "empty_side", "multi_paragraph_side", "empty_indent_equals_wrap_b"],
        known: None,
    }
}
