//! C16 — refill equals filling the original paragraph at the new width.

use super::c15::{gen_fill_opts, gen_paragraph};
use super::common::*;
use crate::case::Case;
use crate::gen::opts::{self, OptDomain};
use crate::json::J;
use crate::rng::Rng;
use crate::run::{Obs, Prop, RunCfg, Verdict};

const DOM2: OptDomain = OptDomain {
    allow_custom_split: true,
    allow_optimal: true,
    allow_random_pen: true,
    hostile_pen: false,
    allow_indents: true,
    allow_unicode: true,
};

fn gen(r: &mut Rng, _cfg: &RunCfg) -> Case {
    let p = gen_paragraph(r);
    let o1 = gen_fill_opts(r);
    let mut o1b = o1.clone();
    o1b.width = r.range(0, 30);
    let w2 = r.range(0, 40);
    let o2 = opts::options(r, DOM2, w2);
    Case::new("refill").text(p).opt(o1).opt(o1b).opt(o2).num(r.coin() as usize)
}

pub fn check(case: &Case, obs: &mut Obs) -> Verdict {
    let p = case.t(0);
    let (o1, o1b, o2) = (case.o(0), case.o(1), case.o(2));
    if !o1.available() || !o2.available() {
        return Verdict::Skipped("options not available in this feature set");
    }
    let trailing = case.nums[0] == 1;
    let f1 = o1.fill(p);
    obs.calls += 1;
    if f1.split(o1.le()).count() < 2 {
        return Verdict::Skipped("filled form has fewer than two lines (indents not observable)");
    }
    let mut input = f1.clone();
    if trailing {
        input.push_str(o1.le());
    }
    let got = o2.refill(&input);
    let mut o2x = o2.clone();
    o2x.ii = o1.ii.clone();
    o2x.si = o1.si.clone();
    let mut want = o2x.fill(p);
    if trailing {
        want.push_str(o2.le());
    }
    obs.calls += 2;
    if obs.want_sample {
        obs.out = Some(J::obj().set("input", J::s(&input)).set("refilled", J::s(&got)));
    }
    if got != want {
        return Verdict::Violated(format!("refill(fill(t,o1),o2) = {:?}, expected fill(t, o2 with o1's indents) = {:?}; input {:?}", got, want, input));
    }
    // independence of the first width
    let f1b = o1b.fill(p);
    obs.calls += 1;
    if f1b.split(o1b.le()).count() >= 2 {
        let mut input_b = f1b;
        if trailing {
            input_b.push_str(o1b.le());
        }
        let got_b = o2.refill(&input_b);
        obs.calls += 1;
        if got_b != got {
            return Verdict::Violated(format!("refill result depends on the width of its input: {:?} vs {:?}", got, got_b));
        }
        obs.bump("width_independence_checked");
    }
    match (o1.crlf, o2.crlf) {
        (false, false) => obs.bump("lf_to_lf"),
        (false, true) => obs.bump("lf_to_crlf"),
        (true, false) => obs.bump("crlf_to_lf"),
        (true, true) => obs.bump("crlf_to_crlf"),
    }
    if trailing {
        obs.bump("trailing_ending");
    }
    let n2 = got.split(o2.le()).count();
    Verdict::held(true, h(&[o1.shape(), o2.shape(), bucket(n2), trailing as u64]))
}

pub fn prop() -> Prop {
    Prop {
        id: "C16",
        rule: "cases = C15 paragraphs filled with o1 (prefix-character indents, width 0..=30, either algorithm, LF/CRLF) so that >= 2 lines result, then refill with an arbitrary option set o2 (any separator / splitter / break_words / algorithm / line ending, width 0..=40) and compared with fill(t, o2 + o1's indents); a second fill width checks independence from the input's width; every evaluated case is non-trivial (>= 2 input lines); distinct = (o1 shape, o2 shape, output line bucket, trailing ending)",
        gen,
        check,
        panic_is_violation: false,
        budget: (1200000, 36000000),
        extra: None,
        required: &["lf_to_lf", "lf_to_crlf", "crlf_to_lf", "crlf_to_crlf", "trailing_ending", "width_independence_checked"],
        known: None,
    }
}
