//! C14 — filling is idempotent (on the stated domain).

use super::common::*;
use crate::case::{Algo, Case, OptSpec, Pen, Sep, Split};
use crate::gen::opts;
use crate::rng::Rng;
use crate::run::{Obs, Prop, RunCfg, Verdict, Worker};

fn gen(r: &mut Rng, _cfg: &RunCfg) -> Case {
    let mut text = gen_text(r, TextDomain::Clean);
    if r.chance(1, 20) {
        let l = crate::gen::text::hyphen_link(r);
        crate::gen::text::inject_word(r, &mut text, &l);
    }
    let dw = crate::oracle::width::ref_width(&text);
    let mut o = OptSpec::new(opts::small_width(r, text.len(), dw));
    o.bw = r.coin();
    o.crlf = r.chance(1, 3);
    o.sep = if cfg!(feature = "ulb") && r.coin() { Sep::Unicode } else { Sep::Ascii };
    o.split = if r.coin() { Split::Hyphen } else { Split::None };
    o.algo = if cfg!(feature = "smawk") && r.chance(1, 3) { Algo::Optimal(Pen::DEFAULT) } else { Algo::FirstFit };
    wrap_case("fill", text, o)
}

/// Does any fragment of any paragraph need force-breaking?
fn needs_forced_break(text: &str, o: &OptSpec) -> bool {
    if !o.bw {
        return false;
    }
    let splitter = o.split_build();
    for para in text.split(o.le()) {
        let words = o.sep_build().find_words(para);
        for w in textwrap::word_splitters::split_words(words, &splitter) {
            if w.width > o.width {
                return true;
            }
        }
    }
    false
}

pub fn check(case: &Case, obs: &mut Obs) -> Verdict {
    let text = case.t(0);
    let o = case.o(0);
    if !o.available() {
        return Verdict::Skipped("options not available in this feature set");
    }
    if !o.ii.is_empty() || !o.si.is_empty() || o.split == Split::Custom {
        return Verdict::Skipped("outside the stated domain (indents / custom splitter)");
    }
    if let Algo::Optimal(p) = o.algo {
        if !p.is_default() {
            return Verdict::Skipped("outside the stated domain (non-default penalties)");
        }
    }
    if !crate::oracle::ansi::clean_ansi(text) {
        return Verdict::Skipped("text has malformed escape sequences (a line break changes their extent; see DESIGN section 5)");
    }
    let forced = needs_forced_break(text, o);
    if o.sep == Sep::Unicode && forced {
        return Verdict::Skipped("Unicode separator with a word that needs force-breaking (excluded by the statement)");
    }
    let once = o.fill(text);
    obs.calls += 1;
    if matches!(o.algo, Algo::Optimal(_)) {
        let over = once.split(o.le()).any(|l| textwrap::core::display_width(l) > o.width);
        if over {
            return Verdict::Skipped("optimal-fit result has an over-wide line (excluded by the statement)");
        }
    }
    let twice = o.fill(&once);
    obs.calls += 1;
    if obs.want_sample {
        obs.out = Some(crate::json::J::s(&crate::case::preview(&once, 200)));
    }
    if twice != once {
        return Verdict::Violated(format!("fill(fill(t)) != fill(t): first {:?}, second {:?}", once, twice));
    }
    let nlines = once.split(o.le()).count();
    let inserted = nlines > text.split(o.le()).count();
    if inserted {
        obs.bump("breaks_inserted");
    }
    if forced {
        obs.bump("forced_break_ascii");
    }
    if matches!(o.algo, Algo::Optimal(_)) && inserted {
        obs.bump("optimal_fit_multi_line");
    }
    if o.sep == Sep::Unicode && inserted {
        obs.bump("unicode_multi_line");
    }
    Verdict::held(inserted, h(&[o.shape(), bucket(nlines), forced as u64, bucket(o.width.min(64))]))
}

/// KF-2: the hyphen splitter cuts inside an escape sequence containing a hyphen.
pub fn known(case: &Case, _msg: &str) -> Option<&'static str> {
    let o = case.o(0);
    // KF-2 reaches C14 through the Unicode separator only: after the first fill has cut a sequence at an
    // in-sequence hyphen, the tail of the sequence starts a line and the second pass, which no longer sees it
    // as part of a sequence, finds break opportunities in it that the first pass did not. With the ASCII
    // separator words end at spaces in both passes and every piece is measured stand-alone in both passes,
    // so fill stays idempotent there (0 of 4.2*10^7 generated cases on the pinned code); a violation with
    // the ASCII separator is therefore not this finding.
    if o.split == Split::Hyphen && o.sep == crate::case::Sep::Unicode && crate::oracle::words::hyphen_point_inside_sequence(case.t(0)) {
        // attributable to the hyphen splitter: the same case holds without it
        let mut c2 = case.clone();
        c2.opts[0].split = Split::None;
        let mut obs = Obs::default();
        if matches!(check(&c2, &mut obs), Verdict::Held { .. } | Verdict::Skipped(_)) {
            return Some("KF-2");
        }
    }
    // KF-3: Hebrew letter + '-' + alphanumeric combining mark, Unicode separator, hyphen splitter (found by the
    // thorough tier after ~3.5*10^8 cases); attributed only if the same case holds without the splitter
    if o.split == Split::Hyphen && o.sep == Sep::Unicode && crate::oracle::words::hebrew_hyphen_mark(case.t(0)) {
        let mut c2 = case.clone();
        c2.opts[0].split = Split::None;
        let mut obs = Obs::default();
        if matches!(check(&c2, &mut obs), Verdict::Held { .. } | Verdict::Skipped(_)) {
            return Some("KF-3");
        }
    }
    None
}

fn extra(cfg: &RunCfg, w: &mut Worker) {
    corpus_subrun(cfg, w, |i, paras, width, v| {
        grid_variant(v, i, width, false).map(|mut o| {
            o.ii.clear();
            o.si.clear();
            Case::new("fill").text(paras[i].clone()).opt(o)
        })
    });
    // exhaustive small strings on the stated domain
    let max = if cfg.thorough { 6 } else { 4 };
    let threads = cfg.threads.max(1);
    let mut idx = 0usize;
    let mut todo = Vec::new();
    crate::gen::text::enumerate_strings(super::c01::SMALL_ALPHABET, max, |s| {
        if idx % threads == w.id {
            todo.push(s.to_string());
        }
        idx += 1;
    });
    let mut n = 0u64;
    'outer: for s in todo {
        for width in 0..=6usize {
            for g in small_option_grid() {
                if w.stopped() {
                    break 'outer;
                }
                let mut o = g.clone();
                o.width = width;
                w.run_case(&Case::new("fill").text(s.clone()).opt(o));
                n += 1;
            }
        }
    }
    if w.id == 0 {
        w.note_exhaustive(
            "small-strings",
            &format!("all strings of <= {} tokens over {{a,' ','-',你,U+0301,ESC[m}} x widths 0..=6 x option grid (cases outside the stated domain are skipped and counted; sharded; this worker ran {})", max, n),
            n * threads as u64,
        );
    }
    // exhaustive strings over a "hyphen context" alphabet: what the hyphen splitter cuts apart may have been one
    // unit for UAX #14 (KF-3 was found by chance after 3.5*10^8 random cases; this sub-run makes the whole
    // neighbourhood of that finding a deterministic part of every run)
    let ctx: &[&str] = &["\u{5e1}", "a", "1", "-", "\u{6ed}", "\u{301}", "\u{5b0}", "\u{93e}", "\u{200d}", "\u{4f60}", "\u{1f1f5}", " "];
    let max = if cfg.thorough { 5 } else { 4 };
    let mut idx = 0usize;
    let mut todo = Vec::new();
    crate::gen::text::enumerate_strings(ctx, max, |s| {
        if s.contains('-') {
            if idx % threads == w.id {
                todo.push(s.to_string());
            }
            idx += 1;
        }
    });
    let mut n = 0u64;
    'outer2: for s in todo {
        for width in 0..=3usize {
            for g in small_option_grid() {
                if g.split != Split::Hyphen {
                    continue;
                }
                if w.stopped() {
                    break 'outer2;
                }
                let mut o = g.clone();
                o.width = width;
                w.run_case(&Case::new("fill").text(s.clone()).opt(o));
                n += 1;
            }
        }
    }
    *w.stats.counters.entry("hyphen_context_strings".to_string()).or_insert(0) += n;
    if w.id == 0 {
        w.note_exhaustive(
            "hyphen-context-strings",
            &format!("all strings of <= {} tokens containing '-' over {{Hebrew samekh, a, 1, '-', U+06ED, U+0301, U+05B0, U+093E, ZWJ, U+4F60, regional indicator P, ' '}} x widths 0..=3 x option grid with the hyphen splitter (sharded; this worker ran {})", max, n),
            n * threads as u64,
        );
    }
}

pub fn prop() -> Prop {
    Prop {
        id: "C14",
        rule: "cases = hostile multi-paragraph texts with well-formed sequences with empty indents, small boundary-directed widths, both separators, both built-in splitters, break_words on/off, first-fit and default-penalty optimal-fit; cases outside the stated domain (Unicode separator with a fragment needing force-breaking; optimal-fit with an over-wide line) are skipped and counted; non-trivial = fill inserted at least one line break; distinct = (option shape, line-count bucket, forced break, width bucket)",
        gen,
        check,
        panic_is_violation: false,
        budget: (1800000, 48000000),
        extra: Some(extra),
        required: &["breaks_inserted", "forced_break_ascii", "optimal_fit_multi_line", "unicode_multi_line"],
        known: Some(known),
    }
}
