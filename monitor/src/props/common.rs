//! Helpers shared by the property monitors.

use crate::case::{Case, OptSpec};
use crate::gen::opts::{self, OptDomain};
use crate::gen::text::{self, Class, Mix};
use crate::json::J;
use crate::oracle::ansi::clean_ansi;
use crate::oracle::place::LineIn;
use crate::rng::{fnv, mix, Rng};
use crate::run::{RunCfg, Worker};
use std::borrow::Cow;

pub fn h(parts: &[u64]) -> u64 {
    let mut x = 0x1234_5678_9abc_def0u64;
    for p in parts {
        x = mix(x, *p);
    }
    x
}

pub fn hs(s: &str) -> u64 {
    fnv(s.as_bytes())
}

pub fn bucket(n: usize) -> u64 {
    match n {
        0..=4 => n as u64,
        5..=8 => 5,
        9..=16 => 6,
        17..=64 => 7,
        _ => 8,
    }
}

/// Paragraphs of `text` split at `le`, with byte offsets.
pub fn paragraphs<'a>(text: &'a str, le: &str) -> Vec<(usize, &'a str)> {
    let mut out = Vec::new();
    let mut off = 0;
    for p in text.split(le) {
        out.push((off, p));
        off += p.len() + le.len();
    }
    out
}

/// Build `LineIn`s (with Cow variant and pointer offsets) for wrap's result.
pub fn line_infos<'a>(text: &str, lines: &'a [Cow<'_, str>]) -> Vec<LineIn<'a>> {
    let base = text.as_ptr() as usize;
    let end = base + text.len();
    lines
        .iter()
        .map(|l| match l {
            Cow::Borrowed(s) => {
                let p = s.as_ptr() as usize;
                let inside = p >= base && p + s.len() <= end;
                LineIn {
                    full: s,
                    borrowed: Some(true),
                    ptr_off: if inside { Some(p - base) } else { None },
                    outside: !s.is_empty() && !inside,
                }
            }
            Cow::Owned(s) => LineIn { full: s.as_str(), borrowed: Some(false), ptr_off: None, outside: false },
        })
        .collect()
}

pub fn lines_json(lines: &[Cow<'_, str>]) -> J {
    J::Arr(
        lines
            .iter()
            .take(12)
            .map(|l| {
                J::s(&format!(
                    "{}{}",
                    match l {
                        Cow::Borrowed(_) => "[B] ",
                        Cow::Owned(_) => "[O] ",
                    },
                    crate::case::preview(l, 120)
                ))
            })
            .collect(),
    )
}

pub fn strs_json<S: AsRef<str>>(lines: &[S]) -> J {
    J::Arr(lines.iter().take(12).map(|l| J::s(&crate::case::preview(l.as_ref(), 120))).collect())
}

/// Text generation modes shared by the wrap-level monitors.
#[derive(Clone, Copy, PartialEq, Eq)]
pub enum TextDomain {
    /// everything, dirty sequences included
    Any,
    /// only clean sequences (clean_ansi holds by construction + filter)
    Clean,
}

/// Multi-paragraph hostile text.
pub fn gen_text(r: &mut Rng, dom: TextDomain) -> String {
    let classes: &[Class] = match dom {
        TextDomain::Any => text::ALL_CLASSES,
        TextDomain::Clean => text::CLEAN_CLASSES,
    };
    for _ in 0..8 {
        let m = Mix::swarm(r, classes);
        let n = text::ntok(r);
        let mut t = m.text(r, n);
        // empty / whitespace-only paragraphs in every position
        if r.chance(1, 6) {
            let brk = if r.coin() { "\n" } else { "\r\n" };
            match r.below(4) {
                0 => t = format!("{}{}", brk, t),
                1 => t = format!("{}{}", t, brk),
                2 => t = format!("{}{}{}{}", t, brk, brk, m.text(r, 3)),
                _ => t = format!("{}{}  {}{}", t, brk, brk, m.text(r, 3)),
            }
        }
        if dom == TextDomain::Any || clean_ansi(&t) {
            return t;
        }
    }
    "fallback text without escapes".to_string()
}

/// Single line (no LF / CR) of hostile tokens.
pub fn gen_line(r: &mut Rng, dom: TextDomain) -> String {
    let classes: &[Class] = match dom {
        TextDomain::Any => text::LINE_CLASSES,
        TextDomain::Clean => text::CLEAN_LINE_CLASSES,
    };
    for _ in 0..8 {
        let m = Mix::swarm(r, classes);
        let n = text::ntok(r);
        let t = m.text(r, n);
        if dom == TextDomain::Any || clean_ansi(&t) {
            return t;
        }
    }
    "fallback".to_string()
}

pub fn gen_opts(r: &mut Rng, d: OptDomain, text: &str, small: bool) -> OptSpec {
    // generators never call the library under test (a panicking library must not take the generator down)
    let dw = crate::oracle::width::ref_width(text);
    let w = if small { opts::small_width(r, text.len(), dw) } else { opts::width(r, text.len(), dw) };
    opts::options(r, d, w)
}

pub fn wrap_case(sub: &str, text: String, o: OptSpec) -> Case {
    Case::new(sub).text(text).opt(o)
}

/// All built-in option combinations (for the exhaustive sub-runs).
pub fn small_option_grid() -> Vec<OptSpec> {
    use crate::case::{Algo, Pen, Sep, Split};
    let mut v = Vec::new();
    let algos: Vec<Algo> = if cfg!(feature = "smawk") { vec![Algo::FirstFit, Algo::Optimal(Pen::DEFAULT)] } else { vec![Algo::FirstFit] };
    let seps: Vec<Sep> = if cfg!(feature = "ulb") { vec![Sep::Ascii, Sep::Unicode] } else { vec![Sep::Ascii] };
    for a in &algos {
        for s in &seps {
            for sp in [Split::None, Split::Hyphen] {
                for bw in [false, true] {
                    let mut o = OptSpec::new(0);
                    o.algo = *a;
                    o.sep = *s;
                    o.split = sp;
                    o.bw = bw;
                    v.push(o);
                }
            }
        }
    }
    v
}

/// Realistic corpus: paragraphs of /repo's README, CHANGELOG and the doc
/// comments / code of its sources (read at run time from the tree under test;
/// an unreadable file simply contributes nothing).
pub fn corpus_paragraphs() -> Vec<String> {
    let mut out = Vec::new();
    let mut files: Vec<String> = vec!["/repo/README.md".into(), "/repo/CHANGELOG.md".into()];
    if let Ok(rd) = std::fs::read_dir("/repo/src") {
        let mut v: Vec<String> = rd.filter_map(|e| e.ok()).map(|e| e.path().to_string_lossy().to_string()).filter(|p| p.ends_with(".rs")).collect();
        v.sort();
        files.extend(v);
    }
    for f in files {
        let text = match std::fs::read_to_string(&f) {
            Ok(t) => t,
            Err(_) => continue,
        };
        let is_rs = f.ends_with(".rs");
        let mut cur = String::new();
        for line in text.lines() {
            let l = if is_rs {
                let t = line.trim_start();
                if let Some(rest) = t.strip_prefix("///") {
                    rest.trim_start().to_string()
                } else if let Some(rest) = t.strip_prefix("//!") {
                    rest.trim_start().to_string()
                } else if let Some(rest) = t.strip_prefix("//") {
                    rest.trim_start().to_string()
                } else {
                    // code: keep as a paragraph of its own (indented code for dedent / wrap)
                    if !cur.is_empty() {
                        out.push(std::mem::take(&mut cur));
                    }
                    if !t.is_empty() && out.len() % 7 == 0 {
                        out.push(line.to_string());
                    }
                    continue;
                }
            } else {
                line.to_string()
            };
            if l.trim().is_empty() {
                if !cur.is_empty() {
                    out.push(std::mem::take(&mut cur));
                }
            } else {
                if !cur.is_empty() {
                    cur.push(' ');
                }
                cur.push_str(l.trim_end());
            }
        }
        if !cur.is_empty() {
            out.push(cur);
        }
    }
    out.extend(DOCS.iter().map(|d| d.to_string()));
    out.retain(|p| p.len() <= 1200);
    out
}

/// Paragraphs with the structure of real documents that the repository's own
/// prose does not contain (embedded, so that they are there whatever /repo holds).
pub const DOCS: &[&str] = &[
    "Visit https://crates.io/ for more crates and https://docs.rs/ for their documentation.",
    "See https://downloads.example-project.org/stable/my-app-installer-x86_64-linux.tar.gz or [the docs](https://docs.example-project.org/en/latest/getting-started/first-steps.html) for details.",
    "1. Internationalization support is planned for the next release.",
    "12) Install the toolchain with rustup, then run cargo build --release --no-default-features --features unicode-linebreak,smawk",
    "The report compares the pre- and post-processing steps of two- or three-line paragraphs, left- and right-aligned.",
    "We ported the tokenizer from C++ to Rust and the bindings from C# to plain C last year => 100% done <br>",
    "Released on 2024-01-15 at 12:30:45 as v1.2.3-rc.1 (build 550e8400-e29b-41d4-a716-446655440000) for x86_64-unknown-linux-gnu",
    "Fête nationale: 1789-07-14 ; Ça va ? Quelle belle journée ! « Oui ; entrez » total = f( x )",
    "de ad be ef 00 01 02 03 ca fe ba be 10 20 30 40",
    "ATG GCC ATT GTA ATG GGC CGC TGA AAG GGT GCC CGA",
    "la la la la la la la la la",
    "DE89 3704 0044 0532 0130 00",
    "あいうえおかきくけこさし",
    "こんにちは\u{3000}世界のみなさん\u{3000}お元気ですか\u{3000}またあした",
    "こんにちは、世界！今日はいい天気ですね。",
    "Ｈｅｌｌｏ, Ｗｏｒｌｄ! 🎉🎉🎉 Version 1.2.3 🎉🎉🎉",
    "Happy birthday from all of us 👨\u{200d}👩\u{200d}👧\u{200d}👦 see you on Sunday! Thanks! 👍🏽 We ❤\u{fe0f} Rust ⚠\u{fe0f} 1\u{fe0f}\u{20e3} run 2\u{fe0f}\u{20e3} test 🇩🇰🇸🇪",
    "reviewers:👩\u{200d}💻👩\u{200d}💻👩\u{200d}💻👩\u{200d}💻 Zoo day 👨\u{200d}👩\u{200d}👧\u{200d}👦👨\u{200d}👩\u{200d}👧\u{200d}👦 was fun",
    "السلام عليكم لا إله إلا الله שלום עולם नमस्ते दुनिया สวัสดีชาวโลก",
    "\tcargo build --release\t# tab-indented recipe",
    "name\tversion\tlicense\tdescription",
    "CC\tthe C compiler used to build the objects",
    "Key:\tvalue with a tab and a trailing carriage return\r",
    "warning: unknown option --frobnicate, did you mean --frob-level=3? use -o out -> file",
    "\u{1b}[1;31merreur\u{1b}[0m: fichier introuvable « données.csv » \u{1b}[32m--no-default-features\u{1b}[0m",
    "\u{1b}[33m3f2c9a7be01d4c5566a8e9f0b1c2d3e4f5a6b7c8\u{1b}[m Merge branch \u{1b}[1mwell-known\u{1b}[0m into state-of-the-art",
    "\u{1b}]8;;https://github.com/rust-lang/rust-by-example\u{1b}\\rust-by-example\u{1b}]8;;\u{1b}\\ and \u{1b}]8;;file://srv/share/doc\u{7}a link\u{1b}]8;;\u{7} in a sentence",
    "\u{1b}[1mbold\u{1b}(B\u{1b}[m text after tput sgr0",
    "| Column one | Column two | 80 | and a `code span` with **bold** and _emph_ |",
    "+added line in C++ ... to be continued... 100% <https://docs.rs/textwrap/>",
    "AbstractSingletonProxyFactoryBean TransactionAwareDataSourceProxy InternalFrameInternalFrameTitlePaneInternalFrameTitlePaneMaximizeButtonWindowNotFocusedState",
    "warning: retrying connection to db.example.org:5432 (attempt failed)",
];

/// Corpus sub-run: every corpus paragraph (sharded over workers) x a width
/// ladder (every width 1..=100 in the thorough tier) x 4 variants; `f` builds
/// the case for (paragraph index, paragraphs, width, variant).
pub fn corpus_subrun(cfg: &RunCfg, w: &mut Worker, mut f: impl FnMut(usize, &[String], usize, usize) -> Option<Case>) {
    let paras = corpus_paragraphs();
    if paras.is_empty() {
        return;
    }
    let widths: Vec<usize> = if cfg.thorough { (1..=100).collect() } else { vec![1, 2, 3, 5, 8, 10, 13, 17, 20, 25, 30, 40, 50, 60, 72, 80, 100] };
    let threads = cfg.threads.max(1);
    let mut n = 0u64;
    'outer: for i in 0..paras.len() {
        if i % threads != w.id {
            continue;
        }
        for &wd in &widths {
            for variant in 0..4 {
                if w.stopped() {
                    break 'outer;
                }
                if let Some(c) = f(i, &paras, wd, variant) {
                    w.run_case(&c);
                    n += 1;
                }
            }
        }
    }
    *w.stats.counters.entry("corpus_cases".to_string()).or_insert(0) += n;
    if w.id == 0 {
        w.note_subrun(
            "corpus",
            &format!(
                "{} paragraphs from /repo/README.md, CHANGELOG.md, the doc comments / code lines of /repo/src/*.rs and the embedded realistic-document snippets (URLs, lists, dates, emoji sequences, tabs, coloured log lines ...) x {} widths x 4 option variants (sharded; this worker ran {})",
                paras.len(),
                widths.len(),
                n
            ),
            n * threads as u64,
        );
    }
}

/// Option variant `v` of the small grid at `width` (for corpus sub-runs).
pub fn grid_variant(v: usize, salt: usize, width: usize, first_fit_only: bool) -> Option<OptSpec> {
    let grid: Vec<OptSpec> = small_option_grid().into_iter().filter(|o| !first_fit_only || o.algo == crate::case::Algo::FirstFit).collect();
    if grid.is_empty() {
        return None;
    }
    let mut o = grid[(v * 5 + salt) % grid.len()].clone();
    o.width = width;
    if (v + salt) % 3 == 1 {
        o.ii = "- ".to_string();
        o.si = "  ".to_string();
    }
    Some(o)
}
