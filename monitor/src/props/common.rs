//! Helpers shared by the property monitors.

use crate::case::{Case, OptSpec};
use crate::gen::opts::{self, OptDomain};
use crate::gen::text::{self, Class, Mix};
use crate::json::J;
use crate::oracle::ansi::clean_ansi;
use crate::oracle::place::LineIn;
use crate::rng::{fnv, mix, Rng};
use std::borrow::Cow;

pub fn h(parts: &[u64]) -> u64 {
    let mut x = 0x1234_5678_9abc_def0u64;
    for p in parts {
        x = mix(x, *p);
    }
    x
}

pub fn hs(s: &str) -> u64 {
    fnv(s.as_bytes())
}

pub fn bucket(n: usize) -> u64 {
    match n {
        0..=4 => n as u64,
        5..=8 => 5,
        9..=16 => 6,
        17..=64 => 7,
        _ => 8,
    }
}

/// Paragraphs of `text` split at `le`, with byte offsets.
pub fn paragraphs<'a>(text: &'a str, le: &str) -> Vec<(usize, &'a str)> {
    let mut out = Vec::new();
    let mut off = 0;
    for p in text.split(le) {
        out.push((off, p));
        off += p.len() + le.len();
    }
    out
}

/// Build `LineIn`s (with Cow variant and pointer offsets) for wrap's result.
pub fn line_infos<'a>(text: &str, lines: &'a [Cow<'_, str>]) -> Vec<LineIn<'a>> {
    let base = text.as_ptr() as usize;
    let end = base + text.len();
    lines
        .iter()
        .map(|l| match l {
            Cow::Borrowed(s) => {
                let p = s.as_ptr() as usize;
                let inside = p >= base && p + s.len() <= end;
                LineIn {
                    full: s,
                    borrowed: Some(true),
                    ptr_off: if inside { Some(p - base) } else { None },
                    outside: !s.is_empty() && !inside,
                }
            }
            Cow::Owned(s) => LineIn { full: s.as_str(), borrowed: Some(false), ptr_off: None, outside: false },
        })
        .collect()
}

pub fn lines_json(lines: &[Cow<'_, str>]) -> J {
    J::Arr(
        lines
            .iter()
            .take(12)
            .map(|l| {
                J::s(&format!(
                    "{}{}",
                    match l {
                        Cow::Borrowed(_) => "[B] ",
                        Cow::Owned(_) => "[O] ",
                    },
                    crate::case::preview(l, 120)
                ))
            })
            .collect(),
    )
}

pub fn strs_json<S: AsRef<str>>(lines: &[S]) -> J {
    J::Arr(lines.iter().take(12).map(|l| J::s(&crate::case::preview(l.as_ref(), 120))).collect())
}

/// Text generation modes shared by the wrap-level monitors.
#[derive(Clone, Copy, PartialEq, Eq)]
pub enum TextDomain {
    /// everything, dirty sequences included
    Any,
    /// only clean sequences (clean_ansi holds by construction + filter)
    Clean,
}

/// Multi-paragraph hostile text.
pub fn gen_text(r: &mut Rng, dom: TextDomain) -> String {
    let classes: &[Class] = match dom {
        TextDomain::Any => text::ALL_CLASSES,
        TextDomain::Clean => text::CLEAN_CLASSES,
    };
    for _ in 0..8 {
        let m = Mix::swarm(r, classes);
        let n = text::ntok(r);
        let mut t = m.text(r, n);
        // empty / whitespace-only paragraphs in every position
        if r.chance(1, 6) {
            let brk = if r.coin() { "\n" } else { "\r\n" };
            match r.below(4) {
                0 => t = format!("{}{}", brk, t),
                1 => t = format!("{}{}", t, brk),
                2 => t = format!("{}{}{}{}", t, brk, brk, m.text(r, 3)),
                _ => t = format!("{}{}  {}{}", t, brk, brk, m.text(r, 3)),
            }
        }
        if dom == TextDomain::Any || clean_ansi(&t) {
            return t;
        }
    }
    "fallback text without escapes".to_string()
}

/// Single line (no LF / CR) of hostile tokens.
pub fn gen_line(r: &mut Rng, dom: TextDomain) -> String {
    let classes: &[Class] = match dom {
        TextDomain::Any => text::LINE_CLASSES,
        TextDomain::Clean => text::CLEAN_LINE_CLASSES,
    };
    for _ in 0..8 {
        let m = Mix::swarm(r, classes);
        let n = text::ntok(r);
        let t = m.text(r, n);
        if dom == TextDomain::Any || clean_ansi(&t) {
            return t;
        }
    }
    "fallback".to_string()
}

pub fn gen_opts(r: &mut Rng, d: OptDomain, text: &str, small: bool) -> OptSpec {
    let dw = textwrap::core::display_width(text);
    let w = if small { opts::small_width(r, text.len(), dw) } else { opts::width(r, text.len(), dw) };
    opts::options(r, d, w)
}

pub fn wrap_case(sub: &str, text: String, o: OptSpec) -> Case {
    Case::new(sub).text(text).opt(o)
}

/// All built-in option combinations (for the exhaustive sub-runs).
pub fn small_option_grid() -> Vec<OptSpec> {
    use crate::case::{Algo, Pen, Sep, Split};
    let mut v = Vec::new();
    let algos: Vec<Algo> = if cfg!(feature = "smawk") { vec![Algo::FirstFit, Algo::Optimal(Pen::DEFAULT)] } else { vec![Algo::FirstFit] };
    let seps: Vec<Sep> = if cfg!(feature = "ulb") { vec![Sep::Ascii, Sep::Unicode] } else { vec![Sep::Ascii] };
    for a in &algos {
        for s in &seps {
            for sp in [Split::None, Split::Hyphen] {
                for bw in [false, true] {
                    let mut o = OptSpec::new(0);
                    o.algo = *a;
                    o.sep = *s;
                    o.split = sp;
                    o.bw = bw;
                    v.push(o);
                }
            }
        }
    }
    v
}
