//! C02 — first-fit lines fit the width unless the line is one unbreakable fragment.

use super::common::*;
use crate::case::{Algo, Case, OptSpec, Sep, Split};
use crate::gen::opts::OptDomain;
use crate::oracle::ansi::clean_ansi;
use crate::oracle::place::place;
use crate::oracle::width::{ref_width, visible_nonzero};
use crate::rng::Rng;
use crate::run::{Obs, Prop, RunCfg, Verdict, Worker};

const DOM: OptDomain = OptDomain {
    allow_custom_split: false,
    allow_optimal: false,
    allow_random_pen: false,
    hostile_pen: false,
    allow_indents: true,
    allow_unicode: true,
};

fn gen(r: &mut Rng, _cfg: &RunCfg) -> Case {
    let mut text = gen_text(r, TextDomain::Clean);
    if r.chance(1, 40) {
        let l = crate::gen::text::hyphen_link(r);
        crate::gen::text::inject_word(r, &mut text, &l);
    }
    if r.chance(1, 3) {
        // make sure multi-paragraph texts with long later paragraphs are common
        let brk = if r.coin() { "\n" } else { "\r\n" };
        text = format!("{}{}{}", text, brk, gen_line(r, TextDomain::Clean));
    }
    let mut o = gen_opts(r, DOM, &text, true);
    if r.chance(1, 2) && o.ii == o.si {
        o.si = crate::gen::opts::indent(r);
    }
    if r.chance(1, 3) {
        // align line ending option with the text's breaks more often
        o.crlf = text.contains("\r\n");
    }
    wrap_case("wrap", text, o)
}

/// Segmentation boundaries (byte offsets relative to the paragraph) of the
/// configured separator and splitter, taken in context on the whole paragraph.
/// Assume-guarantee with C12: if the library's split points differ from the
/// harness's reference rule for some word, None is returned and the case is
/// deferred to C12 (which reports the rule violation) instead of being judged
/// here with either set.
fn boundaries(para: &str, o: &OptSpec) -> Option<Vec<usize>> {
    let mut out = Vec::new();
    let mut p = 0usize;
    let splitter = o.split_build();
    for w in o.sep_build().find_words(para) {
        if p > 0 {
            out.push(p);
        }
        let lib = splitter.split_points(w.word);
        if lib != crate::oracle::words::ref_split_points(o.split, w.word) {
            return None;
        }
        for sp in lib {
            out.push(p + sp);
        }
        p += w.word.len() + w.whitespace.len();
    }
    Some(out)
}

pub fn check(case: &Case, obs: &mut Obs) -> Verdict {
    let text = case.t(0);
    let o = case.o(0);
    if !o.available() {
        return Verdict::Skipped("options not available in this feature set");
    }
    if o.algo != Algo::FirstFit || o.split == Split::Custom {
        return Verdict::Skipped("outside C02's domain (first-fit, built-in splitters)");
    }
    if !clean_ansi(text) || !clean_ansi(&o.ii) || !clean_ansi(&o.si) {
        return Verdict::Skipped("text or indent has malformed escape sequences");
    }
    let built = o.build();
    let lines = if o.by_ref(text) { textwrap::wrap(text, &built) } else { textwrap::wrap(text, o.build()) };
    obs.calls += 1;
    if obs.want_sample {
        obs.out = Some(lines_json(&lines));
    }
    let infos = line_infos(text, &lines);
    let placed = match place(text, o, &infos) {
        Ok(p) => p,
        Err(_) => return Verdict::Skipped("C01 placement failed (reported under C01/C08)"),
    };
    let paras = paragraphs(text, o.le());
    let mut overwide_exempt = 0u64;
    let mut first_of_later_para = false;
    for (i, l) in lines.iter().enumerate() {
        let indent: &str = if i == 0 { &o.ii } else { &o.si };
        // measured with the harness's reference width (exact for well-formed sequences), so that a wrong width
        // function inside the library cannot make an over-wide line look as if it fitted
        let w = ref_width(l);
        let pl = placed[i];
        if i > 0 && paras.iter().any(|(off, _)| *off == pl.start && *off > 0) && ref_width(&o.ii) != ref_width(&o.si) {
            first_of_later_para = true;
        }
        if w <= o.width {
            continue;
        }
        let body = &l[indent.len()..];
        let exempt = if o.bw {
            visible_nonzero(body) <= 1
        } else {
            // paragraph containing the slice
            let (poff, para) = paras
                .iter()
                .rev()
                .find(|(off, _)| *off <= pl.start)
                .copied()
                .unwrap_or((0, text));
            let (s, e) = (pl.start - poff, pl.end.saturating_sub(poff).min(para.len()));
            let mut ex = match boundaries(para, o) {
                Some(bs) => !bs.iter().any(|b| s < *b && *b < e),
                None => return Verdict::Skipped("split points differ from the splitter's specified rule (deferred to C12)"),
            };
            if !ex && super::textlevel::has_stray_breaks(text, o.le()) {
                // the other admissible reading of "paragraph" (every LF, with one CR before it, ends one; section 5,
                // item 14 g): a break opportunity that exists only because of a CR that is part of a line ending
                // is not held against the line
                let mut off = 0usize;
                for piece in text.split('\n') {
                    let p2 = piece.strip_suffix('\r').unwrap_or(piece);
                    if off <= pl.start && pl.start <= off + p2.len() {
                        let (s2, e2) = (pl.start - off, pl.end.saturating_sub(off).min(p2.len()));
                        if let Some(bs) = boundaries(p2, o) {
                            ex = !bs.iter().any(|b| s2 < *b && *b < e2);
                            if ex {
                                obs.bump("universal_newline_reading_admitted");
                            }
                        }
                        break;
                    }
                    off += piece.len() + 1;
                }
            }
            ex
        };
        if !exempt {
            return Verdict::Violated(format!(
                "line {} {:?} has display width {} > width {} and is not a single unbreakable fragment (indent {:?}, break_words={})",
                i, &**l, w, o.width, indent, o.bw
            ));
        }
        overwide_exempt += 1;
    }
    // fill's lines are output lines too: whenever fill does not simply join wrap's lines (its own shortcut, its
    // own assembly), an over-wide line of fill must be one of wrap's (exempt) over-wide lines judged above
    let filled = o.fill(text);
    obs.calls += 1;
    obs.bump("fill_lines_checked");
    if filled != lines.join(o.le()) {
        for fl in filled.split(o.le()) {
            if ref_width(fl) > o.width && !lines.iter().any(|l| &**l == fl) {
                return Verdict::Violated(format!(
                    "line {:?} of fill's result has display width {} > width {} and is not one of wrap's unbreakable over-wide lines (break_words={})",
                    fl, ref_width(fl), o.width, o.bw
                ));
            }
        }
    }
    if overwide_exempt > 0 {
        obs.bump("overwide_exempt_line");
    }
    if first_of_later_para {
        obs.bump("later_paragraph_with_different_indent_widths");
    }
    if lines.len() >= 2 {
        obs.bump("multi_line");
    }
    if ref_width(&o.si) > o.width || ref_width(&o.ii) > o.width {
        obs.bump("indent_wider_than_width");
    }
    Verdict::held(
        lines.len() >= 2,
        h(&[o.shape(), bucket(lines.len()), (overwide_exempt > 0) as u64, first_of_later_para as u64, bucket(paras.len()), (ref_width(&o.si) > o.width) as u64]),
    )
}

/// KF-1: break_words off, rendered indent alone wider than the width, rest of
/// the line consists of zero-width fragments only.
pub fn known(case: &Case, msg: &str) -> Option<&'static str> {
    let o = case.o(0);
    if o.bw || !msg.contains("is not a single unbreakable fragment") {
        return None;
    }
    // re-derive the offending line
    let lines = textwrap::wrap(case.t(0), o.build());
    // The message names the first offending line; parse its index.
    let idx: usize = msg.strip_prefix("line ")?.split(' ').next()?.parse().ok()?;
    let l = lines.get(idx)?;
    let indent: &str = if idx == 0 { &o.ii } else { &o.si };
    let body = l.strip_prefix(indent)?;
    if ref_width(indent) > o.width && ref_width(body) == 0 {
        Some("KF-1")
    } else {
        None
    }
}

fn extra(cfg: &RunCfg, w: &mut Worker) {
    corpus_subrun(cfg, w, |i, paras, width, v| {
        let text = if v == 3 && i + 1 < paras.len() { format!("{}\n{}", paras[i], paras[i + 1]) } else { paras[i].clone() };
        grid_variant(v, i, width, true).map(|mut o| {
            if v == 2 {
                o.ii = "* ".to_string();
                o.si = "      ".to_string();
            }
            Case::new("wrap").text(text).opt(o)
        })
    });
    // exhaustive small strings, first-fit only, with indents of different widths
    let max = if cfg.thorough { 6 } else { 4 };
    let threads = cfg.threads.max(1);
    let mut idx = 0usize;
    let mut strings = Vec::new();
    crate::gen::text::enumerate_strings(super::c01::SMALL_ALPHABET, max, |s| {
        if idx % threads == w.id {
            strings.push(s.to_string());
        }
        idx += 1;
    });
    let mut n = 0u64;
    'outer: for s in strings {
        for width in 0..=6usize {
            for sep in [Sep::Ascii, Sep::Unicode] {
                for split in [Split::None, Split::Hyphen] {
                    for bw in [false, true] {
                        for (ii, si) in [("", ""), ("", "> "), ("--> ", "é")] {
                            if w.stopped() {
                                break 'outer;
                            }
                            let mut o = OptSpec::new(width);
                            o.sep = sep;
                            o.split = split;
                            o.bw = bw;
                            o.ii = ii.to_string();
                            o.si = si.to_string();
                            if !o.available() {
                                continue;
                            }
                            // two paragraphs so that later-paragraph first lines occur
                            let text = if (n % 2) == 0 { s.clone() } else { format!("a\n{}", s) };
                            w.run_case(&Case::new("wrap").text(text).opt(o));
                            n += 1;
                        }
                    }
                }
            }
        }
    }
    if w.id == 0 {
        w.note_exhaustive(
            "small-strings-first-fit",
            &format!("all strings of <= {} tokens over {{a,' ','-',你,U+0301,ESC[m}} (alternately prefixed by a first paragraph) x widths 0..=6 x separators x splitters x break_words x 3 indent pairs (sharded; this worker ran {})", max, n),
            n * threads as u64,
        );
    }
}

pub fn prop() -> Prop {
    Prop {
        id: "C02",
        rule: "cases = (clean multi-paragraph text, first-fit options with built-in splitters, indents of equal/different widths incl. wider than the width, small boundary-directed widths) + exhaustive small strings; every returned line is measured (reference width: per-character table outside well-formed sequences) against the configured width; non-trivial = >= 2 lines; distinct = (option shape, line-count bucket, exempt over-wide line seen, later paragraph with differing indent widths seen, paragraph bucket, indent wider than width)",
        gen,
        check,
        panic_is_violation: false,
        budget: (1800000, 48000000),
        extra: Some(extra),
        required: &["multi_line", "overwide_exempt_line", "later_paragraph_with_different_indent_widths", "indent_wider_than_width"],
        known: Some(known),
    }
}
