//! C19 — indent prefixes every line and preserves line structure.

use super::common::*;
use crate::case::Case;
use crate::gen::text::{Class, Mix};
use crate::json::J;
use crate::rng::Rng;
use crate::run::{Obs, Prop, RunCfg, Verdict, Worker};

const PREFIXES: &[&str] = &["", " ", "  ", "\t", "# ", "> ", "  # ", "\t> ", "//", "-- ", " * ", "é ", "\u{a0}", "\u{3000}|", "| \t", "x", " \u{a0} ", "\n", "a\nb", "\r", "#\u{a0}", "# \u{a0}", ">\u{3000}", "//\u{2003} ", "é\u{a0}\t"];

fn gen(r: &mut Rng, _cfg: &RunCfg) -> Case {
    let m = Mix::swarm(r, &[Class::Ascii, Class::Wide, Class::Zero, Class::Punct, Class::Space, Class::Para, Class::Prefix, Class::Dirty, Class::Scalars, Class::Real, Class::RealStyled]);
    let mut s = String::new();
    for _ in 0..r.range(0, 12) {
        match r.below(8) {
            0..=1 => s.push_str(if r.chance(1, 4) { "\r\n" } else { "\n" }),
            2 => s.push_str(*r.pick(&[" ", "  ", "\t", "\u{a0}", " \t "])),
            // invisible characters that are not whitespace (a line made of them is not blank)
            3 if r.coin() => s.push_str(*r.pick(&["\u{1b}", "\0", "\u{7}", "\u{1c}", "\u{1f}", "\u{7f}", "\u{200b}", "\u{feff}", "\u{180e}", "\u{2060}", "\u{ad}"])),
            _ => {
                s.push_str(&m.token(r));
                if r.coin() {
                    s.push(' ');
                }
            }
        }
    }
    let p = *r.pick(PREFIXES);
    Case::new("indent").text(s).text(p)
}

/// Reference from the statement, line by line.
pub fn ref_indent(s: &str, p: &str) -> String {
    let mut pieces: Vec<&str> = s.split('\n').collect();
    let ends_nl = s.ends_with('\n');
    if pieces.last() == Some(&"") {
        pieces.pop(); // final empty piece (after a final newline, or the empty string)
    }
    let mut out = String::new();
    for (i, l) in pieces.iter().enumerate() {
        if i > 0 {
            out.push('\n');
        }
        if l.chars().any(|c| !c.is_whitespace()) {
            out.push_str(p);
        } else {
            out.push_str(p.trim_end());
        }
        out.push_str(l);
    }
    if ends_nl {
        out.push('\n');
    }
    out
}

pub fn check(case: &Case, obs: &mut Obs) -> Verdict {
    let s = case.t(0);
    let p = case.t(1);
    let got = textwrap::indent(s, p);
    obs.calls += 1;
    if obs.want_sample {
        obs.out = Some(J::s(&got));
    }
    let want = ref_indent(s, p);
    if got != want {
        return Verdict::Violated(format!("indent({:?}, {:?}) = {:?}, expected {:?}", s, p, got, want));
    }
    if !p.contains('\n') && got.matches('\n').count() != s.matches('\n').count() {
        return Verdict::Violated(format!("number of newlines changed from {} to {}", s.matches('\n').count(), got.matches('\n').count()));
    }
    if got.ends_with('\n') != s.ends_with('\n') && !p.ends_with('\n') {
        return Verdict::Violated("final newline not preserved".to_string());
    }
    if p.is_empty() && got != s {
        return Verdict::Violated(format!("indent(s, \"\") = {:?} != s = {:?}", got, s));
    }
    let nl = s.split('\n').count();
    let blank = s.split('\n').any(|l| l.chars().all(|c| c.is_whitespace()));
    let lead_ws = p.starts_with(|c: char| c.is_whitespace()) && p.chars().any(|c| !c.is_whitespace());
    let trail_ws = p.ends_with(|c: char| c.is_whitespace()) && p.chars().any(|c| !c.is_whitespace());
    if nl >= 2 && !p.is_empty() {
        obs.bump("multi_line_prefixed");
    }
    if blank && trail_ws {
        obs.bump("blank_line_with_trimmed_prefix");
    }
    if blank && lead_ws {
        obs.bump("blank_line_with_leading_ws_prefix");
    }
    if p.is_empty() {
        obs.bump("empty_prefix");
    }
    if s.contains("\r\n") {
        obs.bump("crlf_text");
    }
    Verdict::held(
        nl >= 2 && !p.is_empty(),
        h(&[bucket(nl), blank as u64, lead_ws as u64, trail_ws as u64, s.ends_with('\n') as u64, s.contains('\r') as u64, hs(p) % 64]),
    )
}

fn extra(cfg: &RunCfg, w: &mut Worker) {
    let shapes: &[&str] = &["", " ", "\t", "a", " a ", "\u{a0}", "\r"];
    let threads = cfg.threads.max(1);
    let mut idx = 0usize;
    let mut n = 0u64;
    for nl in 0..=(if cfg.thorough { 4 } else { 3 }) {
        let total = shapes.len().pow(nl as u32);
        for code in 0..total {
            idx += 1;
            if idx % threads != w.id {
                continue;
            }
            if w.stopped() {
                return;
            }
            let mut c = code;
            let mut parts = Vec::new();
            for _ in 0..nl {
                parts.push(shapes[c % shapes.len()]);
                c /= shapes.len();
            }
            for fin in ["", "\n"] {
                let s = format!("{}{}", parts.join("\n"), fin);
                for p in PREFIXES {
                    w.run_case(&Case::new("indent").text(s.clone()).text(*p));
                    n += 1;
                }
            }
        }
    }
    if w.id == 0 {
        w.note_exhaustive(
            "line-shapes",
            &format!("all texts of 0..=N lines from 7 line shapes x with/without final newline x {} prefixes (sharded; this worker ran {})", PREFIXES.len(), n),
            n * threads as u64,
        );
    }
}

pub fn prop() -> Prop {
    Prop {
        id: "C19",
        rule: "cases = hostile texts (CRLF, empty lines, whitespace-only lines of several kinds, no final newline) x 25 prefixes (empty, whitespace-only, with leading and/or trailing whitespace, multi-byte, containing newlines) + exhaustive line shapes; indent is compared with a line-by-line reference written from the statement; non-trivial = >= 2 lines and a non-empty prefix; distinct = (line bucket, blank line present, prefix has leading / trailing whitespace, final newline, CR, prefix id)",
        gen,
        check,
        panic_is_violation: false,
        budget: (1800000, 60000000),
        extra: Some(extra),
        required: &["multi_line_prefixed", "blank_line_with_trimmed_prefix", "blank_line_with_leading_ws_prefix", "empty_prefix", "crlf_text"],
        known: None,
    }
}
