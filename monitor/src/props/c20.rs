//! C20 — wrap_columns lays text out in aligned columns, column-major, never failing.

use super::common::*;
use crate::case::Case;
use crate::gen::opts::{self, OptDomain};
use crate::rng::Rng;
use crate::run::{Obs, Prop, RunCfg, Verdict, Worker};
use textwrap::core::display_width as dw;

const GAPS: &[&str] = &["", "", " ", "|", " | ", "✨ ", "--", "é", "  ", "| ", " |", "\u{1b}[2m|\u{1b}[m", "你"];

const DOM: OptDomain = OptDomain {
    allow_custom_split: false,
    allow_optimal: true,
    allow_random_pen: false,
    hostile_pen: false,
    allow_indents: true,
    allow_unicode: true,
};

fn gen(r: &mut Rng, _cfg: &RunCfg) -> Case {
    let text = match r.below(6) {
        0 => gen_text(r, TextDomain::Any),
        1 => String::new(),
        _ => gen_text(r, TextDomain::Clean),
    };
    let mut text = text;
    let total = if r.chance(1, 40) {
        // large totals (padding of more than 65535 columns): short single-paragraph text so that the result stays small
        text = gen_line(r, TextDomain::Clean);
        if text.len() > 48 {
            let mut cut = 48;
            while !text.is_char_boundary(cut) {
                cut -= 1;
            }
            text.truncate(cut);
            if !crate::oracle::ansi::clean_ansi(&text) {
                text = "short text".to_string();
            }
        }
        *r.pick(&[65534usize, 65535, 65536, 65537, 65540, 70000, 131072, 200000])
    } else if r.chance(1, 12) {
        r.range(60, 200)
    } else {
        r.range(0, 60)
    };
    let mut o = opts::options(r, DOM, total);
    if r.chance(5, 6) {
        o.ii.clear();
        o.si.clear();
    }
    let cols = if r.chance(1, 10) { r.range(7, 16) } else { r.range(1, 6) };
    Case::new("columns")
        .text(text)
        .text(*r.pick(GAPS))
        .text(*r.pick(GAPS))
        .text(*r.pick(GAPS))
        .opt(o)
        .num(cols)
}

pub fn check(case: &Case, obs: &mut Obs) -> Verdict {
    let text = case.t(0);
    let (left, mid, right) = (case.t(1), case.t(2), case.t(3));
    let o = case.o(0);
    let cols = case.nums[0];
    if !o.available() {
        return Verdict::Skipped("options not available in this feature set");
    }
    if cols == 0 {
        return Verdict::Skipped("zero columns (documented panic)");
    }
    let rows = o.wrap_columns(text, cols, left, mid, right);
    obs.calls += 1;
    if obs.want_sample {
        obs.out = Some(strs_json(&rows));
    }
    let inner = o.width.saturating_sub(dw(left)).saturating_sub(dw(right)).saturating_sub(dw(mid) * (cols - 1));
    let cw = std::cmp::max(inner / cols, 1);
    let mut oc = o.clone();
    oc.width = cw;
    let built = oc.build();
    let lines = if oc.by_ref(text) { textwrap::wrap(text, &built) } else { textwrap::wrap(text, oc.build()) };
    obs.calls += 1;
    let nrows = (lines.len() + cols - 1) / cols;
    if rows.len() != nrows {
        return Verdict::Violated(format!("{} rows returned for {} wrapped lines in {} columns (expected {})", rows.len(), lines.len(), cols, nrows));
    }
    let max_rem = inner.saturating_sub(cw * cols);
    let mut rem_seen: Option<usize> = None;
    let any_wide = lines.iter().any(|l| dw(l) > cw);
    let mut row_width: Option<usize> = None;
    // display widths are additive over cells and gaps only when no cell can swallow what follows it
    let clean = crate::oracle::ansi::clean_ansi(text) && crate::oracle::ansi::clean_ansi(&o.ii) && crate::oracle::ansi::clean_ansi(&o.si) && lines.iter().all(|l| crate::oracle::ansi::clean_ansi(l));
    for (r, row) in rows.iter().enumerate() {
        let mut prefix = String::from(left);
        for c in 0..cols {
            let cell: &str = lines.get(r + c * nrows).map(|l| l.as_ref()).unwrap_or("");
            prefix.push_str(cell);
            let pad = std::cmp::max(cw, dw(cell)) - dw(cell);
            for _ in 0..pad {
                prefix.push(' ');
            }
            if c + 1 < cols {
                prefix.push_str(mid);
            }
        }
        if !row.starts_with(&prefix) {
            return Verdict::Violated(format!("row {} {:?} does not start with left gap + column-major cells padded to the column width {}: expected prefix {:?}", r, row, cw, prefix));
        }
        if row.len() < prefix.len() + right.len() || !row.ends_with(right) {
            return Verdict::Violated(format!("row {} {:?} does not end with the right gap {:?}", r, row, right));
        }
        let between = &row[prefix.len()..row.len() - right.len()];
        if !between.bytes().all(|b| b == b' ') {
            return Verdict::Violated(format!("row {} has {:?} between the last column and the right gap", r, between));
        }
        let rem = between.len();
        if rem > max_rem {
            return Verdict::Violated(format!("row {}: last column gets {} extra columns but only {} are left of the inner width {} ({} columns of {})", r, rem, max_rem, inner, cols, cw));
        }
        match rem_seen {
            None => rem_seen = Some(rem),
            Some(x) if x != rem => return Verdict::Violated(format!("last-column remainder differs between rows: {} vs {}", x, rem)),
            _ => {}
        }
        if !any_wide && clean {
            let w = dw(row);
            let want = dw(left) + dw(right) + dw(mid) * (cols - 1) + cw * cols + rem;
            if w != want {
                return Verdict::Violated(format!("row {} has display width {}, expected gaps + columns + remainder = {}", r, w, want));
            }
            match row_width {
                None => row_width = Some(w),
                Some(x) if x != w => return Verdict::Violated(format!("rows have different display widths: {} vs {}", x, w)),
                _ => {}
            }
        }
    }
    if any_wide {
        obs.bump("protruding_line");
    }
    if nrows >= 2 && cols >= 2 {
        obs.bump("multi_row_multi_column");
    }
    if lines.len() % cols != 0 && cols >= 2 {
        obs.bump("ragged_last_column");
    }
    if rem_seen.unwrap_or(0) > 0 {
        obs.bump("nonzero_remainder");
    }
    if inner < cols {
        obs.bump("columns_clamped_to_width_1");
    }
    if o.width > 65535 {
        obs.bump("total_width_above_65535");
    }
    Verdict::held(
        nrows >= 2 && cols >= 2,
        h(&[o.shape(), bucket(nrows), cols as u64, any_wide as u64, (rem_seen.unwrap_or(0) > 0) as u64, (inner < cols) as u64, !left.is_empty() as u64, !mid.is_empty() as u64]),
    )
}

fn extra(cfg: &RunCfg, w: &mut Worker) {
    corpus_subrun(cfg, w, |i, paras, width, v| {
        grid_variant(v, i, width, false).map(|mut o| {
            o.ii.clear();
            o.si.clear();
            let g = [("", " ", ""), ("| ", " | ", " |"), ("", "  ", ""), ("> ", "✨ ", "")][v];
            Case::new("columns").text(paras[i].clone()).text(g.0).text(g.1).text(g.2).opt(o).num(1 + (i + v) % 4)
        })
    });
    // grid: columns 1..=6 x total width 0..=60 x a few gap triples x break_words, fixed texts
    let texts = ["", "a", "\u{ff28}", "The quick brown fox jumps over the lazy dog", "你好 世界 wide ｗｉｄｅ text", "supercalifragilistic x"];
    let gaps = [("", "", ""), ("| ", " | ", " |"), ("é", "✨ ", "--")];
    let threads = cfg.threads.max(1);
    let mut idx = 0usize;
    let mut n = 0u64;
    for cols in 1..=6usize {
        for total in 0..=60usize {
            idx += 1;
            if idx % threads != w.id {
                continue;
            }
            if w.stopped() {
                return;
            }
            for t in texts {
                for g in gaps {
                    for bw in [false, true] {
                        let mut o = crate::case::OptSpec::new(total);
                        o.bw = bw;
                        w.run_case(&Case::new("columns").text(t).text(g.0).text(g.1).text(g.2).opt(o).num(cols));
                        n += 1;
                    }
                }
            }
        }
    }
    if w.id == 0 {
        w.note_exhaustive(
            "grid",
            &format!("columns 1..=6 x total width 0..=60 x 6 texts x 3 gap triples x break_words on/off (sharded; this worker ran {})", n),
            6 * 61 * 6 * 3 * 2,
        );
    }
}

pub fn prop() -> Prop {
    Prop {
        id: "C20",
        rule: "cases = hostile texts (5/6 clean) x columns 1..=6 (1/10: 7..=16) x total width 0..=60 (1/12: up to 200; 1/40: 65534..200000 with a short text) x gaps from 13 strings (empty, multi-byte, wide, coloured) x option sets (both algorithms / separators, built-in splitters, break_words on/off, occasionally indents) + the full grid columns x widths on fixed texts; rows are rebuilt from wrap(text) at the computed column width in column-major order; a panic is a violation; non-trivial = >= 2 rows and >= 2 columns; distinct = (option shape, row bucket, columns, protruding line, remainder, clamped columns, gaps present)",
        gen,
        check,
        panic_is_violation: true,
        budget: (1500000, 48000000),
        extra: Some(extra),
        required: &["total_width_above_65535", "protruding_line", "multi_row_multi_column", "ragged_last_column", "nonzero_remainder", "columns_clamped_to_width_1"],
        known: None,
    }
}
