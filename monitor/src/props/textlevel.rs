//! Shared pieces of the text-level halves of C03 and C07: per-paragraph
//! fragments from the library's own public pipeline (assume-guarantee: C11/C12
//! report defects of the pipeline), rendering of a fragment run as a line.

use crate::case::{Frag, OptSpec};
use textwrap::core::Word;

pub struct Para<'a> {
    pub text: &'a str,
    /// variant A: pipeline fragments; variant B (only when break_words): the same with a leading zero-width sentinel
    pub words: Vec<Word<'a>>,
    /// byte offset of each word inside `text`
    pub offs: Vec<usize>,
    pub lossless: bool,
}

/// Fragments of one paragraph exactly as `wrap` derives them: find_words ->
/// split_words -> break_words(width - dw(subsequent_indent)).
pub fn para_fragments<'a>(para: &'a str, o: &OptSpec, splitter: &'a textwrap::WordSplitter) -> Para<'a> {
    let limit = o.width.saturating_sub(textwrap::core::display_width(&o.si));
    let words = o.sep_build().find_words(para);
    let split = textwrap::word_splitters::split_words(words, splitter);
    let words: Vec<Word<'a>> = if o.bw { textwrap::core::break_words(split, limit) } else { split.collect() };
    let mut offs = Vec::with_capacity(words.len());
    let mut p = 0usize;
    let mut lossless = true;
    for w in &words {
        offs.push(p);
        let e = p + w.word.len() + w.whitespace.len();
        if para.get(p..p + w.word.len()) != Some(w.word) || para.get(p + w.word.len()..e) != Some(w.whitespace) {
            lossless = false;
            break;
        }
        p = e;
    }
    if p != para.len() {
        lossless = false;
    }
    Para { text: para, words, offs, lossless }
}

impl<'a> Para<'a> {
    pub fn frags(&self) -> Vec<Frag> {
        // A fragment's width is its display width (C10 pins what that is): measured with the harness's reference
        // wherever the piece is free of malformed sequences, so that a width cached wrongly somewhere in the
        // pipeline (and then used consistently by the wrap algorithm) cannot hide. Pieces of a cut sequence
        // (KF-2) and other malformed pieces keep the library's value.
        self.words
            .iter()
            .map(|w| {
                let width = if crate::oracle::ansi::clean_ansi(w.word) { crate::oracle::width::ref_width(w.word) } else { w.width };
                // (the whitespace likewise by its display width: it consists of U+0020 only unless the pipeline is broken)
                Frag { w: width as f64, ws: crate::oracle::width::ref_width(w.whitespace) as f64, pw: w.penalty.len() as f64 }
            })
            .collect()
    }

    /// Text of a line holding words i..j (j > i), without and with the rendered penalty.
    pub fn render(&self, i: usize, j: usize) -> (&'a str, &'a str) {
        let start = self.offs[i];
        let last = &self.words[j - 1];
        let end = self.offs[j - 1] + last.word.len();
        (&self.text[start..end], last.penalty)
    }

    /// Does `body` equal the rendering of words i..j (penalty text optional)?
    pub fn matches(&self, i: usize, j: usize, body: &str) -> bool {
        let (s, pen) = self.render(i, j);
        // a line may or may not keep trailing spaces of its last piece (a forced cut inside a word that
        // contains a space), and may or may not render the penalty text: neither is C03's / C07's business
        let eq = |a: &str, b: &str| a == b || a.trim_end_matches(' ') == b.trim_end_matches(' ');
        if eq(body, s) {
            return true;
        }
        if !pen.is_empty() {
            if let Some(rest) = body.strip_suffix(pen) {
                return eq(rest, s);
            }
        }
        false
    }
}

/// Does `text` contain a line break that is not the configured line ending (a
/// bare LF in CRLF mode, a CR directly before an LF in LF mode)? The statements
/// speak of "line-ending-separated paragraphs" without saying whether such a
/// break also separates paragraphs, so both readings are admitted.
pub fn has_stray_breaks(text: &str, le: &str) -> bool {
    if le == "\r\n" {
        let b = text.as_bytes();
        (0..b.len()).any(|i| b[i] == b'\n' && (i == 0 || b[i - 1] != b'\r'))
    } else {
        text.contains("\r\n")
    }
}

/// Paragraphs of `text`: split at the configured ending, or (`universal`) at
/// every LF with one CR directly before it counted as part of the ending.
pub fn split_paragraphs<'a>(text: &'a str, le: &str, universal: bool) -> Vec<&'a str> {
    if !universal {
        return text.split(le).collect();
    }
    let mut v: Vec<&str> = text.split('\n').collect();
    let n = v.len();
    for p in v.iter_mut().take(n - 1) {
        if let Some(s) = p.strip_suffix('\r') {
            *p = s;
        }
    }
    v
}

/// Run a text-level check under the configured-ending reading of "paragraph"
/// and, if that reports a violation on a text with stray line breaks, under the
/// universal reading; only a violation under both readings is reported.
pub fn either_reading(text: &str, le: &str, obs: &mut crate::run::Obs, mut f: impl FnMut(bool, &mut crate::run::Obs) -> crate::run::Verdict) -> crate::run::Verdict {
    let v = f(false, obs);
    if matches!(v, crate::run::Verdict::Violated(_)) && has_stray_breaks(text, le) {
        let v2 = f(true, obs);
        if !matches!(v2, crate::run::Verdict::Violated(_)) {
            obs.bump("universal_newline_reading_admitted");
            return v2;
        }
    }
    v
}

/// Display widths are not additive over the fragments of a paragraph when it
/// contains malformed escape sequences, or when a split point of the configured
/// splitter falls inside a sequence (KF-2 for the hyphen splitter; the harness's
/// custom splitter does the same between digits of CSI parameters). If the whole
/// paragraph, with the indent it would carry, fits by display width, returning
/// it whole is exactly what C05 asks for, whatever its fragments add up to; the
/// text-level halves of C03 and C07 admit that line as an alternative reading of
/// such a paragraph (and only of such a paragraph: where widths are additive the
/// one-line result is judged like any other arrangement).
pub fn whole_line_alternative<'a>(p: &Para<'a>, o: &OptSpec, first_paragraph: bool) -> Option<&'a str> {
    let para = p.text;
    let total: f64 = p.frags().iter().map(|f| f.w + f.ws).sum();
    // (a hyphen-inserting custom splitter is the third such regime: the width of the hyphen it would insert is
    // charged to a fragment even when a narrower, e.g. zero-width, fragment follows, so the first-fit rule can
    // refuse a paragraph that fits as a whole)
    if crate::oracle::ansi::clean_ansi(para) && total == crate::oracle::width::ref_width(para) as f64 && o.split != crate::case::Split::Custom {
        return None;
    }
    let ind: &str = if first_paragraph { &o.ii } else { &o.si };
    let dw = textwrap::core::display_width;
    if dw(ind) + dw(para).min(crate::oracle::width::ref_width(para)) <= o.width {
        Some(para.trim_end_matches(' '))
    } else {
        None
    }
}

/// Line widths for paragraph number `p` of the text given how many lines have
/// been emitted before it: only the first line of the whole text carries the
/// initial indent.
pub fn para_line_widths(o: &OptSpec, first_paragraph: bool) -> [f64; 2] {
    let dw = textwrap::core::display_width;
    let w0 = o.width.saturating_sub(dw(&o.ii)) as f64;
    let w1 = o.width.saturating_sub(dw(&o.si)) as f64;
    if first_paragraph {
        [w0, w1]
    } else {
        [w1, w1]
    }
}

/// Strip the applicable indent from each returned line; None if one is missing.
pub fn bodies<'l>(lines: &'l [std::borrow::Cow<'_, str>], o: &OptSpec) -> Option<Vec<&'l str>> {
    let mut v = Vec::with_capacity(lines.len());
    for (i, l) in lines.iter().enumerate() {
        let ind: &str = if i == 0 { &o.ii } else { &o.si };
        v.push(l.strip_prefix(ind)?);
    }
    Some(v)
}
