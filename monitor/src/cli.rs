//! Command line of the monitor binaries.

use crate::case::Case;
use crate::json::{self, J};
use crate::run::{self, Obs, Prop, RunCfg, Verdict};
use std::time::Duration;

pub fn features() -> &'static str {
    match (cfg!(feature = "uw"), cfg!(feature = "ulb"), cfg!(feature = "smawk")) {
        (true, true, true) => "default",
        (false, false, false) => "none",
        (false, true, true) => "mixed",
        (true, false, false) => "uw",
        (false, true, false) => "ulb",
        (false, false, true) => "smawk",
        (true, true, false) => "uw_ulb",
        (true, false, true) => "uw_smawk",
    }
}

pub fn build_kind() -> &'static str {
    if cfg!(miri) {
        "miri"
    } else if cfg!(debug_assertions) {
        "checked"
    } else {
        "release"
    }
}

fn arg(args: &[String], name: &str) -> Option<String> {
    args.iter().position(|a| a == name).and_then(|i| args.get(i + 1).cloned())
}

fn flag(args: &[String], name: &str) -> bool {
    args.iter().any(|a| a == name)
}

/// Entry point shared by the binaries. `find` resolves a property id.
pub fn main_with(find: fn(&str) -> Option<Prop>) -> i32 {
    let args: Vec<String> = std::env::args().collect();
    let cmd = args.get(1).map(|s| s.as_str()).unwrap_or("");
    let prop_id = arg(&args, "--prop").unwrap_or_default();
    let prop = match find(&prop_id) {
        Some(p) => p,
        None => {
            eprintln!("twmon: unknown property {:?}", prop_id);
            return 2;
        }
    };
    match cmd {
        "run" => {
            let cfg = RunCfg {
                prop: prop_id.clone(),
                thorough: flag(&args, "--thorough"),
                seed: arg(&args, "--seed").and_then(|s| s.parse().ok()).unwrap_or(1),
                threads: arg(&args, "--threads").and_then(|s| s.parse().ok()).unwrap_or(16),
                cases: arg(&args, "--cases").and_then(|s| s.parse().ok()).or_else(|| {
                    // --scale f: a fraction of the tier's case budget
                    arg(&args, "--scale").and_then(|s| s.parse::<f64>().ok()).map(|f| {
                        let b = if flag(&args, "--thorough") { prop.budget.1 } else { prop.budget.0 };
                        ((b as f64) * f) as u64
                    })
                }),
                flavour: format!("{}/{}", build_kind(), features()),
                journal: arg(&args, "--journal"),
                deadline: Duration::from_secs(arg(&args, "--deadline").and_then(|s| s.parse().ok()).unwrap_or(600)),
                miri: cfg!(miri) || flag(&args, "--single"),
                no_extra: flag(&args, "--no-extra") || cfg!(miri),
                max_violations: arg(&args, "--max-violations").and_then(|s| s.parse().ok()).unwrap_or(200),
            };
            let (stats, wall) = run::run(prop.clone(), &cfg);
            let j = run::result_json(&prop, &cfg, &stats, wall);
            let text = j.to_string();
            match arg(&args, "--out") {
                Some(path) => {
                    if let Err(e) = std::fs::write(&path, &text) {
                        eprintln!("twmon: cannot write {}: {}", path, e);
                        return 2;
                    }
                }
                None => println!("{}", text),
            }
            0
        }
        "replay" => {
            let path = arg(&args, "--file").unwrap_or_default();
            let src = match std::fs::read_to_string(&path) {
                Ok(s) => s,
                Err(e) => {
                    eprintln!("twmon: cannot read {}: {}", path, e);
                    return 2;
                }
            };
            let j = match json::parse(&src) {
                Ok(j) => j,
                Err(e) => {
                    eprintln!("twmon: bad json in {}: {}", path, e);
                    return 2;
                }
            };
            let cj = j.get("case").unwrap_or(&j);
            let case = match Case::from_json(cj) {
                Some(c) => c,
                None => {
                    eprintln!("twmon: no case in {}", path);
                    return 2;
                }
            };
            run::install_panic_hook();
            let mut obs = Obs::default();
            obs.want_sample = true;
            let check = prop.check;
            let res = std::panic::catch_unwind(std::panic::AssertUnwindSafe(|| check(&case, &mut obs)));
            let (status, msg, known) = match res {
                Ok(Verdict::Held { .. }) => ("held", String::new(), None),
                Ok(Verdict::Skipped(r)) => ("skipped", r.to_string(), None),
                Ok(Verdict::Inconclusive(r)) => ("inconclusive", r, None),
                Ok(Verdict::Violated(m)) => {
                    let k = prop.known.and_then(|f| std::panic::catch_unwind(std::panic::AssertUnwindSafe(|| f(&case, &m))).ok().flatten());
                    ("violated", m, k)
                }
                Err(_) => {
                    let (loc, m) = run::take_panic();
                    if prop.panic_is_violation && !loc.starts_with("src/") {
                        let call = run::current_call();
                        let m = format!("library panicked{}: {} at {}", if call.is_empty() { String::new() } else { format!(" in {}", call) }, m, loc);
                        let k = prop.known.and_then(|f| f(&case, &m));
                        ("violated", m, k)
                    } else {
                        ("inconclusive", format!("panic: {} at {}", m, loc), None)
                    }
                }
            };
            let out = J::obj()
                .set("property_id", J::s(prop.id))
                .set("flavour", J::s(&format!("{}/{}", build_kind(), features())))
                .set("status", J::s(status))
                .set("message", J::s(&msg))
                .set("known", known.map(J::s).unwrap_or(J::Null))
                .set("observed", obs.out.take().unwrap_or(J::Null));
            println!("{}", out.to_string());
            if status == "violated" {
                1
            } else {
                0
            }
        }
        _ => {
            eprintln!("usage: twmon run|replay --prop <id> ...");
            2
        }
    }
}
