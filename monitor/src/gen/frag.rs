//! Fragment-level workloads for C03 / C04 / C06 / C07.

use crate::case::{Frag, Pen};
use crate::rng::Rng;

#[derive(Clone, Copy, Debug, PartialEq, Eq)]
pub enum Scale {
    Small,
    Large,
    Dyadic,
}

fn len(r: &mut Rng, max: usize) -> usize {
    match r.below(16) {
        0 => 0,
        1 => 1,
        2..=8 => r.range(2, 12.min(max)),
        9..=13 => r.range(2, 30.min(max)),
        _ => r.range(2, max),
    }
}

/// Integer-valued (or dyadic) fragments. With `precond` the C03 precondition
/// `penalty_width[k] <= width[k+1]` is enforced by construction.
pub fn finite_frags(r: &mut Rng, scale: Scale, max_len: usize, precond: bool) -> Vec<Frag> {
    if r.chance(1, 10) {
        return regular_frags(r, scale, max_len);
    }
    let n = len(r, max_len);
    let zero_w = r.range(0, 8); // probability x/16 of a zero-width fragment
    let pen_rate = r.range(0, 8);
    let ws_mode = r.below(4);
    let mut v: Vec<Frag> = Vec::with_capacity(n);
    for _ in 0..n {
        let w = if r.below(16) < zero_w / 2 + 1 && r.chance(1, 2) {
            0.0
        } else {
            match scale {
                Scale::Small => r.range(0, 12) as f64,
                Scale::Large => match r.below(4) {
                    0 => r.range(0, 12) as f64,
                    1 => r.range(0, 1000) as f64,
                    _ => r.range(0, 1 << 20) as f64,
                },
                Scale::Dyadic => r.range(0, 96) as f64 / 8.0,
            }
        };
        let ws = match ws_mode {
            0 => 1.0,
            1 => r.range(0, 1) as f64,
            2 => r.range(0, 3) as f64,
            _ => match scale {
                Scale::Dyadic => r.range(0, 16) as f64 / 8.0,
                Scale::Large => r.range(0, 100) as f64,
                Scale::Small => r.range(0, 2) as f64,
            },
        };
        let pw = if r.below(16) < pen_rate {
            match scale {
                Scale::Dyadic => r.range(0, 16) as f64 / 8.0,
                _ => r.range(0, 2) as f64,
            }
        } else {
            0.0
        };
        v.push(Frag { w, ws, pw });
    }
    if precond {
        for k in 0..n {
            if k + 1 < n {
                if v[k].pw > v[k + 1].w {
                    v[k].pw = if r.coin() { v[k + 1].w } else { 0.0 };
                }
            }
        }
    }
    v
}

/// Perfectly regular input (a hex dump, a row of equal words, unspaced CJK):
/// all fragments have the same width and the same whitespace, no penalties;
/// the count is often an exact multiple of what fits on a line.
pub fn regular_frags(r: &mut Rng, scale: Scale, max_len: usize) -> Vec<Frag> {
    let unit = if scale == Scale::Dyadic { 0.5 } else { 1.0 };
    let lo = if r.chance(1, 12) { 0 } else { 1 };
    let w = r.range(lo, 8) as f64 * unit;
    let ws = *r.pick(&[0.0, 1.0, 1.0, 1.0, 2.0]) * unit;
    let per_line = r.range(1, 8);
    let n = match r.below(4) {
        0 => r.range(1, max_len.max(1)),
        _ => (per_line * r.range(1, 12)).min(max_len.max(1)),
    };
    let mut v: Vec<Frag> = (0..n).map(|_| Frag { w, ws, pw: 0.0 }).collect();
    if r.coin() {
        if let Some(l) = v.last_mut() {
            l.ws = 0.0;
        }
    }
    v
}

fn is_regular(frags: &[Frag]) -> bool {
    frags.len() >= 2 && frags.iter().all(|f| f.w == frags[0].w && f.pw == 0.0) && frags[..frags.len() - 1].iter().all(|f| f.ws == frags[0].ws)
}

pub fn line_widths(r: &mut Rng, scale: Scale, max_lists: usize, frags: &[Frag]) -> Vec<f64> {
    if is_regular(frags) && max_lists >= 1 && r.chance(3, 4) {
        // lines that are filled exactly by k fragments (or miss / exceed that by one unit), all lines alike
        let unit = if scale == Scale::Dyadic { 0.5 } else { 1.0 };
        let (w, ws) = (frags[0].w, frags[0].ws);
        let mut ks: Vec<usize> = (1..=8).filter(|k| frags.len() % k == 0).collect();
        if ks.is_empty() || r.chance(1, 4) {
            ks = (1..=8).collect();
        }
        let k = *r.pick(&ks) as f64;
        let exact = k * w + (k - 1.0) * ws;
        let lw = match r.below(6) {
            0 => (exact - unit).max(0.0),
            1 => exact + unit,
            _ => exact,
        };
        return if max_lists >= 2 && r.chance(1, 3) { vec![lw, lw] } else { vec![lw] };
    }
    let total: f64 = frags.iter().map(|f| f.w + f.ws).sum();
    let n = r.below(max_lists + 1);
    let mut v = Vec::new();
    for _ in 0..n {
        let w = match r.below(10) {
            0 => 0.0,
            1 => 1.0,
            2..=5 => match scale {
                Scale::Small => r.range(0, 30) as f64,
                Scale::Large => r.range(0, 3 << 20) as f64,
                Scale::Dyadic => r.range(0, 240) as f64 / 8.0,
            },
            6..=7 => {
                // a fraction of the total, rounded to the grid
                let f = total * r.f01();
                match scale {
                    Scale::Dyadic => (f * 8.0).floor() / 8.0,
                    _ => f.floor(),
                }
            }
            8 => total.floor(),
            _ => match scale {
                Scale::Small => r.range(5, 15) as f64,
                Scale::Large => r.range(100, 5000) as f64,
                Scale::Dyadic => r.range(40, 120) as f64 / 8.0,
            },
        };
        v.push(w);
    }
    v
}

/// Penalties keeping every cost exactly representable for the given scale.
pub fn exact_penalties(r: &mut Rng, scale: Scale) -> Pen {
    if r.chance(1, 3) {
        return Pen::DEFAULT;
    }
    let cap = match scale {
        Scale::Small => 1usize << 28,
        _ => 100_000,
    };
    let val = |r: &mut Rng| -> usize {
        match r.below(8) {
            0 => 0,
            1 => 1,
            2..=4 => r.below(60),
            5..=6 => r.below(5000),
            _ => r.below(cap),
        }
    };
    Pen { nline: val(r), overflow: val(r), frac: r.below(10), short: val(r), hyphen: val(r) }
}

pub const HOSTILE_F64: &[f64] = &[
    0.0,
    -0.0,
    1e-300,
    1e100,
    -1e100,
    1e300,
    f64::MAX,
    f64::MIN_POSITIVE,
    -1.0,
    -7.5,
    0.1,
    1.0,
    3.0,
    1e154,
    1e155,
    4503599627370496.0,
    9007199254740993.0,
    1.8446744073709552e19,
];

pub const NONFINITE: &[f64] = &[f64::NAN, f64::INFINITY, f64::NEG_INFINITY];

/// Arbitrary finite f64 fragments (zero, fractional, negative, huge).
pub fn hostile_frags(r: &mut Rng, max_len: usize, nonfinite: bool) -> Vec<Frag> {
    let n = len(r, max_len);
    let hostile_rate = r.range(1, 12);
    let val = |r: &mut Rng| -> f64 {
        if r.below(16) < hostile_rate {
            if nonfinite && r.chance(1, 4) {
                *r.pick(NONFINITE)
            } else {
                *r.pick(HOSTILE_F64)
            }
        } else {
            match r.below(4) {
                0 => r.range(0, 12) as f64,
                1 => r.f01() * 20.0,
                2 => r.range(0, 100) as f64 / 8.0,
                _ => -(r.f01() * 5.0),
            }
        }
    };
    (0..n).map(|_| Frag { w: val(r), ws: val(r), pw: val(r) }).collect()
}

pub fn hostile_line_widths(r: &mut Rng, nonfinite: bool) -> Vec<f64> {
    let n = r.below(4);
    (0..n)
        .map(|_| {
            if r.chance(1, 3) {
                if nonfinite && r.chance(1, 4) {
                    *r.pick(NONFINITE)
                } else {
                    *r.pick(HOSTILE_F64)
                }
            } else {
                r.range(0, 40) as f64
            }
        })
        .collect()
}

/// usize-valued fragments (as f64) for the "never Err with usize inputs" clause.
pub fn usize_frags(r: &mut Rng, max_len: usize) -> Vec<Frag> {
    let n = len(r, max_len);
    let big: &[usize] = &[usize::MAX, usize::MAX - 1, crate::rng::P53, crate::rng::P53_PLUS_1, u32::MAX as usize, crate::rng::P40];
    let val = |r: &mut Rng| -> f64 {
        (if r.chance(1, 5) { *r.pick(big) } else { r.below(30) }) as f64
    };
    (0..n).map(|_| Frag { w: val(r), ws: val(r), pw: val(r) }).collect()
}
