//! Option generators: boundary-directed widths, indent families, all
//! built-in option combinations available in the compiled feature set.

use crate::case::{Algo, OptSpec, Pen, Sep, Split};
use crate::rng::Rng;

/// Indent families grouped by display width and emptiness.
pub const INDENTS_W0_EMPTY: &[&str] = &[""];
pub const INDENTS_W0_NONEMPTY: &[&str] = &["\u{301}", "\u{1b}[1m", "\u{200b}"];
pub const INDENTS_W1: &[&str] = &[" ", ">", "é", "\u{1b}[31m>\u{1b}[0m", "*", "\t>"];
// (the emoji-sequence, keycap, skin-tone, ZWJ, lam-alef and tab indents are measured differently by
// string-level width functions than by the per-character sum that `display_width` is specified to be)
pub const INDENTS_W2: &[&str] = &["  ", "- ", "> ", "你", "é ", "\u{1b}[2m| \u{1b}[m", "//", "\u{26a0}\u{fe0f} ", "1\u{fe0f}\u{20e3} ", "\u{644}\u{627}", "\t| "];
pub const INDENTS_W4: &[&str] = &["    ", "--> ", "你好", "  * ", "é è ", "\u{1f44d}\u{1f3fd}", "\u{2714}\u{fe0f}\u{2714}\u{fe0f}  "];
pub const INDENTS_W10: &[&str] = &["          ", "0123456789", "你好你好你好", "\u{1f468}\u{200d}\u{1f469}\u{200d}\u{1f467}\u{200d}\u{1f466}  "];

/// With the crude width rule (no `uw` feature) the zero-width family has
/// width 1 for U+0301 / U+200B; the families are only used where the
/// monitors compute widths themselves, so that is fine.
pub fn indent(r: &mut Rng) -> String {
    let fam: &[&str] = match r.below(16) {
        0..=6 => INDENTS_W0_EMPTY,
        7 => INDENTS_W0_NONEMPTY,
        8..=9 => INDENTS_W1,
        10..=12 => INDENTS_W2,
        13..=14 => INDENTS_W4,
        _ => INDENTS_W10,
    };
    r.pick(fam).to_string()
}

/// An indent with clean sequences only (all families are clean).
pub fn indent_pair(r: &mut Rng) -> (String, String) {
    match r.below(8) {
        0..=2 => (String::new(), String::new()),
        3 => {
            let i = indent(r);
            (i.clone(), i)
        }
        _ => (indent(r), indent(r)),
    }
}

pub fn penalties(r: &mut Rng, hostile: bool) -> Pen {
    if r.chance(1, 3) {
        return Pen::DEFAULT;
    }
    let small = |r: &mut Rng| -> usize {
        match r.below(8) {
            0 => 0,
            1 => 1,
            2..=4 => r.below(50),
            5..=6 => r.below(3000),
            _ => r.below(100_000),
        }
    };
    let mut p = Pen { nline: small(r), overflow: small(r), frac: r.below(9), short: small(r), hyphen: small(r) };
    if hostile {
        let big: &[usize] = &[usize::MAX, usize::MAX - 1, crate::rng::P53, crate::rng::P53_PLUS_1, u32::MAX as usize, 1 << 31];
        for slot in 0..5 {
            if r.chance(1, 5) {
                let v = *r.pick(big);
                match slot {
                    0 => p.nline = v,
                    1 => p.overflow = v,
                    2 => p.frac = v,
                    3 => p.short = v,
                    _ => p.hyphen = v,
                }
            }
        }
    }
    p
}

#[derive(Clone, Copy, Debug)]
pub struct OptDomain {
    pub allow_custom_split: bool,
    pub allow_optimal: bool,
    pub allow_random_pen: bool,
    pub hostile_pen: bool,
    pub allow_indents: bool,
    pub allow_unicode: bool,
}

impl OptDomain {
    pub const ALL: OptDomain = OptDomain {
        allow_custom_split: true,
        allow_optimal: true,
        allow_random_pen: true,
        hostile_pen: false,
        allow_indents: true,
        allow_unicode: true,
    };
}

pub fn options(r: &mut Rng, d: OptDomain, width: usize) -> OptSpec {
    let mut o = OptSpec::new(width);
    if d.allow_indents {
        let (a, b) = indent_pair(r);
        o.ii = a;
        o.si = b;
    }
    o.crlf = r.chance(1, 3);
    o.bw = r.coin();
    o.sep = if d.allow_unicode && cfg!(feature = "ulb") && r.coin() { Sep::Unicode } else { Sep::Ascii };
    o.split = match r.below(if d.allow_custom_split { 5 } else { 4 }) {
        0..=1 => Split::Hyphen,
        2..=3 => Split::None,
        _ => Split::Custom,
    };
    o.algo = if d.allow_optimal && cfg!(feature = "smawk") && r.coin() {
        if d.allow_random_pen && r.coin() {
            Algo::Optimal(penalties(r, d.hostile_pen))
        } else {
            Algo::Optimal(Pen::DEFAULT)
        }
    } else {
        Algo::FirstFit
    };
    o
}

/// Boundary-directed width for a text of byte length `len` and display width `dw`.
pub fn width(r: &mut Rng, len: usize, dw: usize) -> usize {
    match r.below(32) {
        0 => 0,
        1 => 1,
        2 => 2,
        3..=12 => r.range(1, 12),
        13..=18 => r.range(5, 40),
        19..=20 => dw.saturating_sub(1) + r.below(3),
        21..=23 => len.saturating_sub(1) + r.below(4),
        24..=25 => r.range(dw.min(len), len.max(dw) + 2),
        26 => r.range(40, 120),
        27 => usize::MAX,
        28 => usize::MAX - 1,
        29 => crate::rng::P53,
        30 => crate::rng::P53_PLUS_1,
        _ => r.range(0, 6),
    }
}

/// Small widths only (for monitors whose oracles are super-linear).
pub fn small_width(r: &mut Rng, len: usize, dw: usize) -> usize {
    match r.below(16) {
        0 => 0,
        1 => 1,
        2..=8 => r.range(2, 14),
        9..=11 => r.range(8, 40),
        12 => dw.saturating_sub(1) + r.below(3),
        13 => len.saturating_sub(1) + r.below(4),
        _ => r.range(0, 6),
    }
}
