pub mod frag;
pub mod opts;
pub mod text;
