//! Hostile text generators: token classes with per-batch ("swarm") mixes.

use crate::rng::Rng;

pub const ASCII_WORDS: &[&str] = &[
    "a", "I", "to", "be", "or", "not", "foo", "bar", "baz", "wrap", "text", "line", "width", "hello", "world!", "Lorem",
    "ipsum", "dolor", "sit", "amet,", "question", "unfortunately", "x", "é", "ß", "café", "naïve", "Ünïcödé", "über",
    "supercalifragilistic", "1", "42", "3.14", "1,5", "2024", "tic-tac-toe", "a-b", "x-", "-y", "--", "--foo-bar",
    "self-aware", "e-mail", "a1-b2", "co-op-er-ate", "don't", "it's", "\"quoted\"", "(paren)", "[x]", "$5", "50%",
    "a/b", "http://example.com/path", "end.", "yes?", "no!", "a:b", "semi;colon",
];

pub const WIDE: &[&str] = &[
    "你", "好", "你好", "世界", "日本語", "한국어", "ﾊﾝｶｸ", "Ｈ", "Ｈｅｌｌｏ", "😂", "😍", "✨", "👍🏽", "👨\u{200d}🦰",
    "👨\u{200d}👩\u{200d}👧", "🇩🇰", "🇩", "\u{fdfa}", "ᄀ", "ᄀ\u{1161}", "❤\u{fe0f}", "☺\u{fe0e}", "、", "。", "「你」",
];

pub const ZERO_WIDTH: &[&str] = &[
    "\u{301}", "e\u{301}", "\u{200b}", "\u{200d}", "\u{fe0e}", "\u{fe0f}", "\u{2060}", "\u{ad}", "\u{feff}", "\u{200e}",
    "\u{0}", "\u{7f}", "\u{9b}", "\u{2028}", "\u{85}", "\u{c}", "\u{b}", "a\u{ad}b", "x\u{200b}y", "\u{301}\u{301}",
    "\u{8}", "\u{7}",
];

pub const PUNCT: &[&str] = &[
    "(", ")", "[", "]", "!", "?", ".", ",", ":", ";", "/", "'", "\"", "$", "%", "\u{2010}", "\u{2011}", "\u{2014}", "«",
    "»", "-", "--", "---", "a-", "-b", "( a )", "a )", "( b", "…", "·", "\\", "|", "&", "@", "~", "^", "_", "`", "{", "}",
    "*", "+", ">", "#", "=", "<",
];

pub const SPACES: &[&str] = &[" ", " ", " ", " ", "  ", "   ", "\t", "\u{a0}", "\u{3000}", "\r", " \t ", "\u{2003}"];

pub const PREFIX_CHARS: &[char] = &[' ', '-', '+', '*', '>', '#', '/'];

/// A well-formed CSI sequence with parameter bytes and a final byte sampled
/// from the whole range '@'..='~' (both ends and '[' included).
pub fn clean_csi(r: &mut Rng) -> String {
    let mut s = String::from("\u{1b}[");
    match r.below(10) {
        0 => {}
        1..=4 => {
            s.push_str(*r.pick(&["0", "1", "31", "32", "1;31", "38;5;196", "38;2;255;0;0", "4:3", "?25", "0;1;4"]));
        }
        5 => {
            for _ in 0..r.range(1, 4) {
                s.push(*r.pick(&['0', '1', '9', ';', ':', '<', '=', '>', '?', '!', '"', '#', '$', '%', '&', '\'', '(', ')', '*', '+', ',', '.', '/']));
            }
        }
        6 => s.push_str(if r.chance(1, 8) { "1-2" } else { "1;2" }),
        _ => s.push_str(*r.pick(&["0", "1", "7"])),
    }
    let fin = match r.below(8) {
        0..=3 => 'm',
        4 => '@',
        5 => '~',
        6 => '[',
        _ => (0x40u8 + r.below(0x3f) as u8) as char,
    };
    s.push(fin);
    s
}

/// A well-formed OSC sequence (hyperlink or title) without interior spaces.
pub fn clean_osc(r: &mut Rng) -> String {
    let body = *r.pick(&["8;;http://example.com", "8;;", "0;title", "8;id=1;https://x.y/z?q=1", "2;é你", "1337;a=b"]);
    let term = if r.coin() { "\u{7}" } else { "\u{1b}\\" };
    format!("\u{1b}]{}{}", body, term)
}

pub fn clean_seq(r: &mut Rng) -> String {
    if r.chance(3, 4) {
        clean_csi(r)
    } else {
        clean_osc(r)
    }
}

/// SGR colour or hyperlink (for C13).
pub fn sgr_or_link(r: &mut Rng) -> String {
    match if r.chance(1, 150) { 6 } else { r.below(6) } {
        6 => format!("\u{1b}]8;;https://my-site.example/a-b{}", if r.coin() { "\u{7}" } else { "\u{1b}\\" }),
        0 => "\u{1b}[0m".to_string(),
        1 => "\u{1b}[31m".to_string(),
        2 => "\u{1b}[1;38;5;196m".to_string(),
        3 => "\u{1b}[m".to_string(),
        4 => format!("\u{1b}]8;;http://example.com{}", if r.coin() { "\u{7}" } else { "\u{1b}\\" }),
        _ => format!("\u{1b}]8;;{}", if r.coin() { "\u{7}" } else { "\u{1b}\\" }),
    }
}

pub const DIRTY: &[&str] = &[
    "\u{1b}", "\u{1b}[", "\u{1b}]", "\u{1b}X", "\u{1b}\u{1b}[0m", "\u{1b}]8;; http://x\u{7}", "\u{1b}[3 1m", "\u{1b}[31",
    "\u{1b}]0;t", "\u{1b}\\", "\u{1b} ", "\u{1b}\n", "\u{1b}你", "\u{1b}[\u{1b}[m", "\u{1b}]a\u{1b}b\u{7}", "\u{1b}[é",
    "\u{1b}]\u{1b}", "\u{1b}[1;\n2m",
];

#[derive(Clone, Copy, Debug, PartialEq, Eq, Hash)]
pub enum Class {
    Ascii,
    Wide,
    Zero,
    Punct,
    Space,
    Para,
    Clean,
    Dirty,
    Prefix,
}

/// Per-batch mix of token classes.
#[derive(Clone, Debug)]
pub struct Mix {
    pub weights: Vec<(Class, usize)>,
    pub crlf_breaks: bool,
    /// probability (in 1/16) that tokens are glued without a space
    pub glue: usize,
}

impl Mix {
    /// Random subset of classes ("swarm"); `allow` filters what may appear.
    pub fn swarm(r: &mut Rng, allow: &[Class]) -> Mix {
        let mut weights = Vec::new();
        for c in allow {
            let on = match c {
                Class::Ascii => r.chance(7, 8),
                Class::Space => r.chance(7, 8),
                _ => r.coin(),
            };
            if on {
                let w = match c {
                    Class::Ascii => r.range(2, 10),
                    Class::Space => r.range(2, 8),
                    Class::Para => r.range(1, 3),
                    _ => r.range(1, 6),
                };
                weights.push((*c, w));
            }
        }
        if weights.is_empty() {
            weights.push((Class::Ascii, 1));
        }
        Mix { weights, crlf_breaks: r.coin(), glue: r.below(12) }
    }

    pub fn has(&self, c: Class) -> bool {
        self.weights.iter().any(|(k, _)| *k == c)
    }

    fn pick_class(&self, r: &mut Rng) -> Class {
        let total: usize = self.weights.iter().map(|(_, w)| *w).sum();
        let mut x = r.below(total);
        for (c, w) in &self.weights {
            if x < *w {
                return *c;
            }
            x -= *w;
        }
        self.weights[0].0
    }

    /// One token of the mix.
    pub fn token(&self, r: &mut Rng) -> String {
        match self.pick_class(r) {
            Class::Ascii => r.pick(ASCII_WORDS).to_string(),
            Class::Wide => r.pick(WIDE).to_string(),
            Class::Zero => r.pick(ZERO_WIDTH).to_string(),
            Class::Punct => r.pick(PUNCT).to_string(),
            Class::Space => r.pick(SPACES).to_string(),
            Class::Para => {
                if self.crlf_breaks {
                    if r.chance(1, 6) { "\n".to_string() } else { "\r\n".to_string() }
                } else if r.chance(1, 8) {
                    "\r\n".to_string()
                } else {
                    "\n".to_string()
                }
            }
            Class::Clean => clean_seq(r),
            Class::Dirty => r.pick(DIRTY).to_string(),
            Class::Prefix => {
                let mut s = String::new();
                for _ in 0..r.range(1, 3) {
                    s.push(*r.pick(PREFIX_CHARS));
                }
                s
            }
        }
    }

    /// Text of about `ntok` tokens.
    pub fn text(&self, r: &mut Rng, ntok: usize) -> String {
        let mut s = String::new();
        for k in 0..ntok {
            let t = self.token(r);
            if k > 0 && r.below(16) >= self.glue && !t.starts_with(['\n', '\r']) && !s.ends_with(['\n']) {
                s.push(' ');
            }
            s.push_str(&t);
        }
        s
    }
}

pub const ALL_CLASSES: &[Class] = &[
    Class::Ascii,
    Class::Wide,
    Class::Zero,
    Class::Punct,
    Class::Space,
    Class::Para,
    Class::Clean,
    Class::Dirty,
    Class::Prefix,
];

pub const CLEAN_CLASSES: &[Class] =
    &[Class::Ascii, Class::Wide, Class::Zero, Class::Punct, Class::Space, Class::Para, Class::Clean, Class::Prefix];

pub const CLEAN_LINE_CLASSES: &[Class] =
    &[Class::Ascii, Class::Wide, Class::Zero, Class::Punct, Class::Space, Class::Clean, Class::Prefix];

pub const LINE_CLASSES: &[Class] =
    &[Class::Ascii, Class::Wide, Class::Zero, Class::Punct, Class::Space, Class::Clean, Class::Dirty, Class::Prefix];

/// Token count distribution: mostly short, sometimes long.
pub fn ntok(r: &mut Rng) -> usize {
    match r.below(16) {
        0 => 0,
        1..=2 => 1,
        3..=9 => r.range(2, 8),
        10..=13 => r.range(8, 20),
        _ => r.range(20, 45),
    }
}

/// Enumerate all strings of up to `max` tokens over `alphabet`.
pub fn enumerate_strings(alphabet: &[&str], max: usize, mut f: impl FnMut(&str)) {
    let k = alphabet.len();
    let mut s = String::new();
    f("");
    for len in 1..=max {
        let total = k.pow(len as u32);
        for n in 0..total {
            let mut x = n;
            s.clear();
            for _ in 0..len {
                s.push_str(alphabet[x % k]);
                x /= k;
            }
            f(&s);
        }
    }
}

/// Number of strings `enumerate_strings` produces.
pub fn enumerate_count(k: usize, max: usize) -> usize {
    (0..=max).map(|l| k.pow(l as u32)).sum()
}
