//! Hostile text generators: token classes with per-batch ("swarm") mixes.

use crate::rng::Rng;

pub const ASCII_WORDS: &[&str] = &[
    "a", "I", "to", "be", "or", "not", "foo", "bar", "baz", "wrap", "text", "line", "width", "hello", "world!", "Lorem",
    "ipsum", "dolor", "sit", "amet,", "question", "unfortunately", "x", "é", "ß", "café", "naïve", "Ünïcödé", "über",
    "supercalifragilistic", "1", "42", "3.14", "1,5", "2024", "tic-tac-toe", "a-b", "x-", "-y", "--", "--foo-bar",
    "self-aware", "e-mail", "a1-b2", "co-op-er-ate", "don't", "it's", "\"quoted\"", "(paren)", "[x]", "$5", "50%",
    "a/b", "http://example.com/path", "end.", "yes?", "no!", "a:b", "semi;colon", "rock-n-roll", "x-y-z", "2024-1-15", "m²-x", "½-inch",
    "well\u{2010}known", "...", "wait", "Mr.", "e.g.,",
];

pub const WIDE: &[&str] = &[
    "你", "好", "你好", "世界", "日本語", "한국어", "ﾊﾝｶｸ", "Ｈ", "Ｈｅｌｌｏ", "😂", "😍", "✨", "👍🏽", "👨\u{200d}🦰",
    "👨\u{200d}👩\u{200d}👧", "🇩🇰", "🇩", "\u{fdfa}", "ᄀ", "ᄀ\u{1161}", "❤\u{fe0f}", "☺\u{fe0e}", "、", "。", "「你」",
];

pub const ZERO_WIDTH: &[&str] = &[
    "\u{301}", "e\u{301}", "\u{200b}", "\u{200d}", "\u{fe0e}", "\u{fe0f}", "\u{2060}", "\u{ad}", "\u{feff}", "\u{200e}",
    "\u{0}", "\u{7f}", "\u{9b}", "\u{2028}", "\u{85}", "\u{c}", "\u{b}", "a\u{ad}b", "x\u{200b}y", "\u{301}\u{301}",
    "\u{8}", "\u{7}",
];

pub const PUNCT: &[&str] = &[
    "(", ")", "[", "]", "!", "?", ".", ",", ":", ";", "/", "'", "\"", "$", "%", "\u{2010}", "\u{2011}", "\u{2014}", "«",
    "»", "-", "--", "---", "a-", "-b", "( a )", "a )", "( b", "…", "·", "\\", "|", "&", "@", "~", "^", "_", "`", "{", "}",
    "*", "+", ">", "#", "=", "<",
];

pub const SPACES: &[&str] = &[" ", " ", " ", " ", "  ", "   ", "\t", "\u{a0}", "\u{3000}", "\r", " \t ", "\u{2003}", "\r\r", " \r"];

pub const PREFIX_CHARS: &[char] = &[' ', '-', '+', '*', '>', '#', '/'];

/// A well-formed CSI sequence with parameter bytes and a final byte sampled
/// from the whole range '@'..='~' (both ends and '[' included).
pub fn clean_csi(r: &mut Rng) -> String {
    let mut s = String::from("\u{1b}[");
    match r.below(12) {
        0 => {}
        1..=4 => {
            s.push_str(*r.pick(&[
                "0", "1", "31", "32", "1;31", "38;5;196", "38;2;255;0;0", "4:3", "?25", "0;1;4", "38;2;255;128;100", "1;4;38;5;196;48;5;21",
                "38;2;255;255;255;48;2;0;0;0", "38:2::255:0:0", "58:5:196", "4:0", "200", "201", "15",
            ]));
        }
        5 => {
            for _ in 0..r.range(1, 4) {
                s.push(*r.pick(&['0', '1', '9', ';', ':', '<', '=', '>', '?', '!', '"', '#', '$', '%', '&', '\'', '(', ')', '*', '+', ',', '.', '/']));
            }
        }
        6 => s.push_str(if r.chance(1, 8) { "1-2" } else { "1;2" }),
        7..=8 => {
            // long parameter strings (length 8..40): guards keyed on a maximum sequence length
            for _ in 0..r.range(8, 40) {
                s.push(*r.pick(&['0', '1', '2', '3', '4', '5', '6', '7', '8', '9', ';', ';', ':']));
            }
        }
        _ => s.push_str(*r.pick(&["0", "1", "7"])),
    }
    let fin = match r.below(8) {
        0..=3 => 'm',
        4 => '@',
        5 => '~',
        6 => '[',
        _ => (0x40u8 + r.below(0x3f) as u8) as char,
    };
    s.push(fin);
    s
}

/// A well-formed OSC sequence (hyperlink or title) without interior spaces.
pub fn clean_osc(r: &mut Rng) -> String {
    let term = if r.coin() { "\u{7}" } else { "\u{1b}\\" };
    if r.chance(1, 4) {
        // random payload: printable ASCII without space (backslashes, brackets, semicolons included)
        let mut body = String::new();
        for _ in 0..r.below(24) {
            let c = (0x21u8 + r.below(0x5e) as u8) as char;
            body.push(c);
        }
        // an ESC-backslash terminator directly after a payload backslash is still well-formed
        return format!("\u{1b}]{}{}", body, term);
    }
    let body = *r.pick(&[
        "8;;http://example.com", "8;;", "0;title", "8;id=1;https://x.y/z?q=1", "2;é你", "1337;a=b", "\\0", "\\\\server\\share\\file.txt", "8;;file:\\\\host\\x",
        "", "]", "[31m",
    ]);
    format!("\u{1b}]{}{}", body, term)
}

pub fn clean_seq(r: &mut Rng) -> String {
    if r.chance(3, 4) {
        clean_csi(r)
    } else {
        clean_osc(r)
    }
}

/// SGR colour or hyperlink (for C13).
pub fn sgr_or_link(r: &mut Rng) -> String {
    match if r.chance(1, 800) { 100 } else { r.below(12) } {
        100 => format!("\u{1b}]8;;https://my-site.example/a-b{}", if r.coin() { "\u{7}" } else { "\u{1b}\\" }),
        0 => "\u{1b}[0m".to_string(),
        1 => "\u{1b}[31m".to_string(),
        2 => "\u{1b}[1;38;5;196m".to_string(),
        3 => "\u{1b}[m".to_string(),
        4 => format!("\u{1b}]8;;http://example.com{}", if r.coin() { "\u{7}" } else { "\u{1b}\\" }),
        5 => format!("\u{1b}]8;;{}", if r.coin() { "\u{7}" } else { "\u{1b}\\" }),
        6 => "\u{1b}[4:3m".to_string(),
        7 => "\u{1b}[38:2::255:0:0m".to_string(),
        8 => "\u{1b}[38;2;255;128;100;48;2;0;0;0m".to_string(),
        9 => "\u{1b}[1m".to_string(),
        10 => format!("\u{1b}]8;id=a;file:\\\\host\\share{}", if r.coin() { "\u{7}" } else { "\u{1b}\\" }),
        _ => "\u{1b}[58:5:196m".to_string(),
    }
}

/// A hyperlinked word whose URL has hyphens between alphanumerics (split
/// points of the hyphen splitter *inside* the escape sequence): the pieces of
/// such a word are not additive in width, and a cut sequence changes what a
/// second pass sees.
pub fn hyphen_link(r: &mut Rng) -> String {
    let term = if r.coin() { "\u{7}" } else { "\u{1b}\\" };
    let mut url = String::from(*r.pick(&["http://", "https://", "x:", ""]));
    let segs = r.range(2, 4);
    for i in 0..segs {
        if i > 0 {
            url.push('-');
        }
        let n = r.range(1, 9);
        for _ in 0..n {
            url.push(*r.pick(&['a', 'b', 'z', '0', '7', '.', '/', 'm']));
        }
    }
    let label = *r.pick(&["text", "x", "a-b", "well-known", "\u{4f60}\u{597d}", "link here", ""]);
    format!("\u{1b}]8;;{}{}{}\u{1b}]8;;{}", url, term, label, term)
}

/// Insert `what` as a word of its own at a random space of `text` (or at its end).
pub fn inject_word(r: &mut Rng, text: &mut String, what: &str) {
    let spaces: Vec<usize> = text.char_indices().filter(|(_, c)| *c == ' ').map(|(i, _)| i).collect();
    if spaces.is_empty() {
        text.push(' ');
        text.push_str(what);
    } else {
        let at = *r.pick(&spaces);
        text.insert_str(at, &format!(" {}", what));
    }
}

/// Tokens with the structure of real documents. Random token soup almost never
/// produces these conjunctions (a scheme followed by "://" and a hyphenated
/// host, several hyphens in one word, a word ending in a hyphen, a list marker,
/// a string-level emoji sequence, a tab inside an otherwise ASCII word ...).
pub const REAL: &[&str] = &[
    // markdown
    "[text](https://example.com/a-b/c)", "[docs](https://docs.rs/textwrap/)", "`code`", "**bold**", "_emph_", "|", "1.", "2.", "12)", "10.", "(a)", "[ ]", "[x]", "##",
    "![badge](https://img.shields.io/crates/v/textwrap.svg)",
    // URLs, addresses, paths
    "https://crates.io/", "https://docs.rs/", "http://my-site.example.org/a-b", "https://downloads.example-project.org/stable/my-app-installer-x86_64-linux.tar.gz",
    "ssh://git@host:22/repo.git", "vscode-insiders://open", "file:///tmp/x", "user@example.com", "<https://example.org/>", "https://github.com/rust-lang/rust-by-example",
    "/usr/local/bin", "C:\\Users\\me", "src/word_separators.rs:274:24", "~/.config/", "./a.out", "..",
    // command lines, targets, operators
    "--no-default-features", "--long-option=value", "-o", "->", "=>", "::", "x86_64-unknown-linux-gnu", "--frob-level=3", "-Wall", "-O2", "2>&1", "a&&b", "$(CC)",
    // numbers, dates, versions
    "0.16.2", "v1.2.3-rc.1", "2024-01-15", "1789-07-14", "12:30:45", "1,000.50", "100%", "10kg", "1e-9", "550e8400-e29b-41d4-a716-446655440000", "0xDEADBEEF",
    "3f2c9a7be01d4c5566a8e9f0b1c2d3e4f5a6b7c8", "DE89", "3704", "0044", "#42",
    // abbreviations and suspended hyphens
    "e.g.", "i.e.", "U.S.A.", "etc.", "pre-", "post-processing", "two-", "three-line", "left-", "right-aligned", "state-of-the-art", "well-known",
    // programming languages, markup
    "C++", "C#", "F#", "g++", "<br>", "a&b", "Vec<Option<&str>>", "fn(&mut", "AbstractSingletonProxyFactoryBean", "TransactionAwareDataSource",
    // French spaced punctuation, quotes
    "Ça", "va", "?", "!", ";", "«", "»", "f(", "x", ")", "journée",
    // emoji sequences and scripts whose string width is not the sum of the character widths
    "\u{26a0}\u{fe0f}", "1\u{fe0f}\u{20e3}", "\u{1f44d}\u{1f3fd}", "\u{1f469}\u{200d}\u{1f4bb}", "\u{1f468}\u{200d}\u{1f469}\u{200d}\u{1f467}\u{200d}\u{1f466}",
    "\u{1f1e9}\u{1f1f0}\u{1f1f8}\u{1f1ea}", "\u{2764}\u{fe0f}", "\u{2714}\u{fe0f}", "\u{2139}\u{fe0f}", "\u{1f3fd}", "\u{644}\u{627}", "\u{627}\u{644}\u{633}\u{644}\u{627}\u{645}",
    "\u{5e9}\u{5dc}\u{5d5}\u{5dd}", "\u{928}\u{92e}\u{938}\u{94d}\u{924}\u{947}", "\u{e2a}\u{e27}\u{e31}\u{e2a}\u{e14}\u{e35}", "\u{1112}\u{1161}\u{11ab}", "re\u{301}sume\u{301}_final.pdf",
    "こんにちは\u{3000}世界", "世界のみなさん\u{3000}",
    // tabs and other controls inside otherwise plain ASCII words
    "\tcargo", "name\tvalue\tunit", "key:\tvalue", "\t", "CC\tthe", "N\u{8}NA\u{8}A", "\u{c}", "Bye.\r",
    // diff / log output
    "+++", "---", "@@", "+added", "-removed", "warning:", "error[E0308]:", "[2024-01-15T12:30:45Z", "INFO]",
];

pub fn real_token(r: &mut Rng, styled: bool) -> String {
    let w = *r.pick(REAL);
    if styled {
        // coloured / styled, the sequences glued to the word
        return match r.below(4) {
            0 => format!("\u{1b}[1m{}\u{1b}[0m", w),
            1 => format!("\u{1b}[{}m{}\u{1b}[m", r.range(30, 37), w),
            2 => format!("\u{1b}]8;;https://example.org/x\u{7}{}\u{1b}]8;;\u{7}", w),
            _ => format!("\u{1b}[1;33m{}", w),
        };
    }
    match r.below(8) {
        // two real tokens glued (an option and its value, a marker and its word)
        0 => format!("{}{}", w, r.pick(REAL)),
        _ => w.to_string(),
    }
}

pub fn repeat_token(r: &mut Rng) -> String {
    let w = *r.pick(&["la", "ab", "x", "de", "ATG", "0000", "你", "\u{1f389}", "foo-bar", "é", "ff"]);
    let n = match r.below(8) {
        0..=2 => r.range(2, 6),
        3..=4 => *r.pick(&[8usize, 9, 12, 16]),
        5..=6 => r.range(2, 12),
        _ => *r.pick(&[24usize, 32, 40]),
    };
    let sep = *r.pick(&[" ", " ", " ", "", "  "]);
    let mut s = String::new();
    for k in 0..n {
        if k > 0 {
            s.push_str(sep);
        }
        s.push_str(w);
    }
    s
}

pub const DIRTY: &[&str] = &[
    "\u{1b}", "\u{1b}[", "\u{1b}]", "\u{1b}X", "\u{1b}\u{1b}[0m", "\u{1b}]8;; http://x\u{7}", "\u{1b}[3 1m", "\u{1b}[31",
    "\u{1b}]0;t", "\u{1b}\\", "\u{1b} ", "\u{1b}\n", "\u{1b}你", "\u{1b}[\u{1b}[m", "\u{1b}]a\u{1b}b\u{7}", "\u{1b}[é",
    "\u{1b}]\u{1b}", "\u{1b}[1;\n2m", "\u{1b}7", "\u{1b}8", "\u{1b}M", "\u{1b}c", "\u{1b}=", "\u{1b}7", "\u{1b}M",
];

/// Blocks from which `Class::Scalars` draws characters (inclusive ranges).
pub const BLOCKS: &[(u32, u32)] = &[
    (0x21, 0x7e),       // printable ASCII
    (0xa0, 0xff),       // Latin-1 supplement (NBSP, soft hyphen, accented letters)
    (0x100, 0x24f),     // Latin extended
    (0x300, 0x36f),     // combining marks
    (0x370, 0x3ff),     // Greek
    (0x400, 0x4ff),     // Cyrillic
    (0x5d0, 0x5ea),     // Hebrew letters
    (0x600, 0x6ff),     // Arabic
    (0x900, 0x97f),     // Devanagari
    (0xe00, 0xe7f),     // Thai (no spaces between words)
    (0x1000, 0x10ff),   // Myanmar, Georgian (just below the crude-width cutoff U+1100; UTF-8 lead byte 0xE1)
    (0x1100, 0x11ff),   // Hangul jamo
    (0x2000, 0x206f),   // general punctuation (spaces, ZWSP, joiners, hyphens, line/paragraph separators)
    (0x20a0, 0x20bf),   // currency
    (0x2190, 0x21ff),   // arrows
    (0x2500, 0x257f),   // box drawing
    (0x2600, 0x27bf),   // misc symbols, dingbats
    (0x3000, 0x303f),   // CJK punctuation
    (0x3040, 0x30ff),   // Hiragana, Katakana
    (0x4e00, 0x9fff),   // CJK unified ideographs
    (0xac00, 0xd7a3),   // Hangul syllables
    (0xfe00, 0xfe0f),   // variation selectors
    (0xff00, 0xffef),   // halfwidth and fullwidth forms
    (0x1f1e6, 0x1f1ff), // regional indicators
    (0x1f300, 0x1f64f), // pictographs, emoticons
    (0x1f900, 0x1f9ff), // supplemental symbols
    (0xe0020, 0xe007f), // tags
    (0xd7b0, 0xd7ff),   // Hangul jamo extended-B (end of the BMP before the surrogates)
    (0xe000, 0xe0ff),   // BMP private use
    (0xfff0, 0xffff),   // specials incl. U+FFFD, noncharacters U+FFFE / U+FFFF
    (0x10000, 0x1007f), // Linear B (first characters of plane 1)
    (0x1d400, 0x1d7ff), // mathematical alphanumerics
    (0x20000, 0x2007f), // CJK extension B (plane 2)
    (0x30000, 0x3007f), // CJK extension G (plane 3)
    (0xe0100, 0xe01ef), // variation selectors supplement (plane 14)
    (0xf0000, 0xf007f), // plane 15 private use
    (0xffff0, 0xfffff), // end of plane 15
    (0x100000, 0x10007f), // plane 16 private use
    (0x10fff0, 0x10ffff), // the last scalar values (char::MAX)
];

/// One random scalar value from a random block (never ESC, CR or LF).
pub fn random_scalar(r: &mut Rng) -> char {
    loop {
        let (lo, hi) = *r.pick(BLOCKS);
        let cp = lo + r.below((hi - lo + 1) as usize) as u32;
        if let Some(c) = char::from_u32(cp) {
            if c != '\u{1b}' && c != '\n' && c != '\r' {
                return c;
            }
        }
    }
}

/// A short word of random scalars, usually from a single block.
pub fn random_scalar_word(r: &mut Rng) -> String {
    let n = r.range(1, 5);
    let mut s = String::new();
    if r.chance(2, 3) {
        let (lo, hi) = *r.pick(BLOCKS);
        for _ in 0..n {
            let cp = lo + r.below((hi - lo + 1) as usize) as u32;
            if let Some(c) = char::from_u32(cp) {
                if c != '\u{1b}' && c != '\n' && c != '\r' {
                    s.push(c);
                }
            }
        }
    } else {
        for _ in 0..n {
            s.push(random_scalar(r));
        }
    }
    if s.is_empty() {
        s.push('x');
    }
    s
}

#[derive(Clone, Copy, Debug, PartialEq, Eq, Hash)]
pub enum Class {
    Ascii,
    Wide,
    Zero,
    Punct,
    Space,
    Para,
    Clean,
    Dirty,
    Prefix,
    /// words made of random scalar values from many Unicode blocks
    Scalars,
    /// structured tokens as they occur in real documents (markdown, URLs, paths, options, dates, emoji
    /// sequences, tab-separated fields ...), sometimes wrapped in colour codes
    Real,
    /// the same, wrapped in colour codes / hyperlinks that are glued to the word
    RealStyled,
    /// one short word repeated many times (very regular text)
    Repeat,
}

/// Per-batch mix of token classes.
#[derive(Clone, Debug)]
pub struct Mix {
    pub weights: Vec<(Class, usize)>,
    pub crlf_breaks: bool,
    /// probability (in 1/16) that tokens are glued without a space
    pub glue: usize,
}

impl Mix {
    /// Random subset of classes ("swarm"); `allow` filters what may appear.
    pub fn swarm(r: &mut Rng, allow: &[Class]) -> Mix {
        let mut weights = Vec::new();
        for c in allow {
            let on = match c {
                Class::Ascii => r.chance(7, 8),
                Class::Space => r.chance(7, 8),
                _ => r.coin(),
            };
            if on {
                let w = match c {
                    Class::Repeat => 1,
                    Class::Ascii => r.range(2, 10),
                    Class::Space => r.range(2, 8),
                    Class::Para => r.range(1, 3),
                    _ => r.range(1, 6),
                };
                weights.push((*c, w));
            }
        }
        if weights.is_empty() {
            weights.push((Class::Ascii, 1));
        }
        Mix { weights, crlf_breaks: r.coin(), glue: r.below(12) }
    }

    pub fn has(&self, c: Class) -> bool {
        self.weights.iter().any(|(k, _)| *k == c)
    }

    fn pick_class(&self, r: &mut Rng) -> Class {
        let total: usize = self.weights.iter().map(|(_, w)| *w).sum();
        let mut x = r.below(total);
        for (c, w) in &self.weights {
            if x < *w {
                return *c;
            }
            x -= *w;
        }
        self.weights[0].0
    }

    /// One token of the mix.
    pub fn token(&self, r: &mut Rng) -> String {
        match self.pick_class(r) {
            Class::Ascii => r.pick(ASCII_WORDS).to_string(),
            Class::Wide => r.pick(WIDE).to_string(),
            Class::Zero => r.pick(ZERO_WIDTH).to_string(),
            Class::Punct => r.pick(PUNCT).to_string(),
            Class::Space => r.pick(SPACES).to_string(),
            Class::Para => {
                if self.crlf_breaks {
                    if r.chance(1, 6) { "\n".to_string() } else { "\r\n".to_string() }
                } else if r.chance(1, 8) {
                    "\r\n".to_string()
                } else {
                    "\n".to_string()
                }
            }
            Class::Clean => clean_seq(r),
            Class::Dirty => r.pick(DIRTY).to_string(),
            Class::Scalars => random_scalar_word(r),
            Class::Real => real_token(r, false),
            Class::RealStyled => real_token(r, true),
            Class::Repeat => repeat_token(r),
            Class::Prefix => {
                let mut s = String::new();
                for _ in 0..r.range(1, 3) {
                    s.push(*r.pick(PREFIX_CHARS));
                }
                s
            }
        }
    }

    /// Text of about `ntok` tokens.
    pub fn text(&self, r: &mut Rng, ntok: usize) -> String {
        let mut s = String::new();
        for k in 0..ntok {
            let t = self.token(r);
            if k > 0 && r.below(16) >= self.glue && !t.starts_with(['\n', '\r']) && !s.ends_with(['\n']) {
                s.push(' ');
            }
            s.push_str(&t);
        }
        s
    }
}

pub const ALL_CLASSES: &[Class] = &[
    Class::Real,
    Class::RealStyled,
    Class::Repeat,
    Class::Ascii,
    Class::Wide,
    Class::Zero,
    Class::Punct,
    Class::Space,
    Class::Para,
    Class::Clean,
    Class::Dirty,
    Class::Prefix,
    Class::Scalars,
];

pub const CLEAN_CLASSES: &[Class] =
    &[Class::Ascii, Class::Wide, Class::Zero, Class::Punct, Class::Space, Class::Para, Class::Clean, Class::Prefix, Class::Scalars, Class::Real, Class::RealStyled, Class::Repeat];

pub const CLEAN_LINE_CLASSES: &[Class] =
    &[Class::Ascii, Class::Wide, Class::Zero, Class::Punct, Class::Space, Class::Clean, Class::Prefix, Class::Scalars, Class::Real, Class::RealStyled, Class::Repeat];

pub const LINE_CLASSES: &[Class] =
    &[Class::Ascii, Class::Wide, Class::Zero, Class::Punct, Class::Space, Class::Clean, Class::Dirty, Class::Prefix, Class::Scalars, Class::Real, Class::RealStyled, Class::Repeat];

/// Token count distribution: mostly short, sometimes long.
pub fn ntok(r: &mut Rng) -> usize {
    match r.below(16) {
        0 => 0,
        1..=2 => 1,
        3..=9 => r.range(2, 8),
        10..=13 => r.range(8, 20),
        _ => r.range(20, 45),
    }
}

/// Enumerate all strings of up to `max` tokens over `alphabet`.
pub fn enumerate_strings(alphabet: &[&str], max: usize, mut f: impl FnMut(&str)) {
    let k = alphabet.len();
    let mut s = String::new();
    f("");
    for len in 1..=max {
        let total = k.pow(len as u32);
        for n in 0..total {
            let mut x = n;
            s.clear();
            for _ in 0..len {
                s.push_str(alphabet[x % k]);
                x /= k;
            }
            f(&s);
        }
    }
}

/// Number of strings `enumerate_strings` produces.
pub fn enumerate_count(k: usize, max: usize) -> usize {
    (0..=max).map(|l| k.pow(l as u32)).sum()
}
