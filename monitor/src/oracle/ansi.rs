//! The harness's own escape-sequence tokenizer, written from the statement of
//! C10: CSI = ESC '[' ... final byte in '@'..='~'; OSC = ESC ']' ... BEL or
//! ESC '\'. Everything else starting with ESC is "dirty".

#[derive(Clone, Copy, Debug, PartialEq, Eq)]
pub enum Kind {
    /// An ordinary character.
    Char(char),
    /// Well-formed CSI sequence.
    Csi,
    /// Well-formed OSC sequence.
    Osc,
    /// ESC that does not start a well-formed sequence. The token extends as
    /// far as a loose parser would skip (ESC plus one character, or to the end
    /// of the text for an unterminated CSI/OSC).
    Dirty,
}

#[derive(Clone, Copy, Debug)]
pub struct Tok {
    pub start: usize,
    pub end: usize,
    pub kind: Kind,
}

pub const ESC: char = '\u{1b}';

pub fn tokenize(text: &str) -> Vec<Tok> {
    let b = text.as_bytes();
    let mut out = Vec::new();
    let mut it = text.char_indices().peekable();
    while let Some((i, c)) = it.next() {
        if c != ESC {
            out.push(Tok { start: i, end: i + c.len_utf8(), kind: Kind::Char(c) });
            continue;
        }
        // c == ESC
        let next = text[i + 1..].chars().next();
        match next {
            Some('[') => {
                // look for a final byte
                let mut end = None;
                for (j, ch) in text[i + 2..].char_indices() {
                    if ('\u{40}'..='\u{7e}').contains(&ch) {
                        end = Some(i + 2 + j + 1);
                        break;
                    }
                }
                match end {
                    Some(e) => {
                        out.push(Tok { start: i, end: e, kind: Kind::Csi });
                        while let Some(&(j, _)) = it.peek() {
                            if j < e {
                                it.next();
                            } else {
                                break;
                            }
                        }
                    }
                    None => {
                        out.push(Tok { start: i, end: b.len(), kind: Kind::Dirty });
                        while it.next().is_some() {}
                    }
                }
            }
            Some(']') => {
                let mut end = None;
                let mut last = ']';
                for (j, ch) in text[i + 2..].char_indices() {
                    if ch == '\u{7}' || (ch == '\\' && last == ESC) {
                        end = Some(i + 2 + j + ch.len_utf8());
                        break;
                    }
                    last = ch;
                }
                match end {
                    Some(e) => {
                        out.push(Tok { start: i, end: e, kind: Kind::Osc });
                        while let Some(&(j, _)) = it.peek() {
                            if j < e {
                                it.next();
                            } else {
                                break;
                            }
                        }
                    }
                    None => {
                        out.push(Tok { start: i, end: b.len(), kind: Kind::Dirty });
                        while it.next().is_some() {}
                    }
                }
            }
            Some(other) => {
                let e = i + 1 + other.len_utf8();
                out.push(Tok { start: i, end: e, kind: Kind::Dirty });
                it.next();
            }
            None => {
                out.push(Tok { start: i, end: i + 1, kind: Kind::Dirty });
            }
        }
    }
    out
}

/// True when every ESC starts a well-formed CSI/OSC sequence whose interior
/// contains no U+0020, no further ESC (other than the ESC of an `ESC \`
/// terminator), and no CR/LF.
pub fn clean_ansi(text: &str) -> bool {
    if !text.contains(ESC) {
        return true;
    }
    for t in tokenize(text) {
        match t.kind {
            Kind::Char(_) => {}
            Kind::Dirty => return false,
            Kind::Csi => {
                let inner = &text[t.start + 2..t.end - 1];
                if inner.chars().any(|c| c == ' ' || c == ESC || c == '\n' || c == '\r') {
                    return false;
                }
            }
            Kind::Osc => {
                let body = &text[t.start + 2..t.end];
                let inner = if let Some(s) = body.strip_suffix("\u{1b}\\") {
                    s
                } else {
                    &body[..body.len() - 1]
                };
                if inner.chars().any(|c| c == ' ' || c == ESC || c == '\n' || c == '\r') {
                    return false;
                }
            }
        }
    }
    true
}

pub fn has_esc(text: &str) -> bool {
    text.contains(ESC)
}

/// Text with all sequences (well-formed and dirty tokens) removed.
pub fn strip(text: &str) -> String {
    if !text.contains(ESC) {
        return text.to_string();
    }
    let mut out = String::with_capacity(text.len());
    for t in tokenize(text) {
        if let Kind::Char(c) = t.kind {
            out.push(c);
        }
    }
    out
}

/// The well-formed sequences of `text`, in order.
pub fn sequences(text: &str) -> Vec<&str> {
    tokenize(text)
        .into_iter()
        .filter(|t| matches!(t.kind, Kind::Csi | Kind::Osc))
        .map(|t| &text[t.start..t.end])
        .collect()
}

/// Like `clean_ansi`, but additionally accepts two-character escape sequences
/// (ESC followed by one byte in '0'..='~' other than '[' and ']', e.g. ESC 7,
/// ESC M, ESC c): they are ANSI sequences of fixed length two, and "removing
/// the ANSI sequences" is unambiguous for them. Used by C11 / C12, whose
/// statements speak of ANSI sequences in general rather than CSI/OSC only.
pub fn wellformed_or_two_char(text: &str) -> bool {
    if !text.contains(ESC) {
        return true;
    }
    let mut rest = String::with_capacity(text.len());
    for t in tokenize(text) {
        match t.kind {
            Kind::Dirty => {
                let body = &text[t.start..t.end];
                let mut it = body.chars();
                it.next();
                match (it.next(), it.next()) {
                    // ESC P / X / ^ / _ introduce control strings (DCS, SOS, PM, APC) in ECMA-48: a library may
                    // legitimately skip their payload, so they are not counted as two-character sequences
                    (Some(c), None) if ('0'..='~').contains(&c) && !matches!(c, '[' | ']' | 'P' | 'X' | '^' | '_') => {}
                    _ => return false,
                }
            }
            _ => rest.push_str(&text[t.start..t.end]),
        }
    }
    clean_ansi(&rest)
}
