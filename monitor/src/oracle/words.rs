//! Reference rules for word finding and splitting, from the statements of
//! C11 and C12.

use super::ansi::{tokenize, Kind};
use crate::case::{custom_split_points, Split};

/// ASCII separator: boundaries are exactly the positions where a space is
/// followed by a non-space.
pub fn ascii_boundaries(line: &str) -> Vec<usize> {
    let b = line.as_bytes();
    let mut out = Vec::new();
    for i in 1..b.len() {
        if b[i - 1] == b' ' && b[i] != b' ' {
            out.push(i);
        }
    }
    out
}

/// Expected interior boundaries of the Unicode separator, in coordinates of
/// the stripped text: UAX #14 opportunities of the stripped line, minus the
/// end-of-text one, minus those directly after '-' or U+00AD.
pub fn unicode_boundaries_stripped(stripped: &str) -> Vec<usize> {
    let mut out = Vec::new();
    for (idx, _) in unicode_linebreak::linebreaks(stripped) {
        if idx >= stripped.len() || idx == 0 {
            continue;
        }
        match stripped[..idx].chars().next_back() {
            Some('-') | Some('\u{ad}') => continue,
            _ => out.push(idx),
        }
    }
    out
}

/// Map from original byte offsets (token starts only) to stripped offsets.
/// Returns (stripped text, Vec of (orig_start, stripped_offset, is_visible_char)).
pub struct IndexMap {
    pub stripped: String,
    /// For every token: (orig start, orig end, stripped offset at start, visible)
    pub toks: Vec<(usize, usize, usize, bool)>,
}

pub fn index_map(line: &str) -> IndexMap {
    let mut stripped = String::with_capacity(line.len());
    let mut toks = Vec::new();
    for t in tokenize(line) {
        let off = stripped.len();
        match t.kind {
            Kind::Char(c) => {
                stripped.push(c);
                toks.push((t.start, t.end, off, true));
            }
            _ => toks.push((t.start, t.end, off, false)),
        }
    }
    IndexMap { stripped, toks }
}

impl IndexMap {
    /// Stripped offset of an original offset that is a token start (or the
    /// end of the line). None if the offset lies strictly inside a token.
    pub fn to_stripped(&self, orig: usize, line_len: usize) -> Option<usize> {
        if orig == line_len {
            return Some(self.stripped.len());
        }
        match self.toks.binary_search_by(|t| t.0.cmp(&orig)) {
            Ok(i) => Some(self.toks[i].2),
            Err(_) => None,
        }
    }
    /// Is `orig` strictly inside an escape-sequence token?
    pub fn inside_sequence(&self, orig: usize) -> bool {
        self.toks.iter().any(|t| !t.3 && t.0 < orig && orig < t.1)
    }
}

/// Hyphen splitter rule: byte offset directly after each '-' that has an
/// alphanumeric character on both sides.
pub fn hyphen_points(word: &str) -> Vec<usize> {
    let chars: Vec<(usize, char)> = word.char_indices().collect();
    let mut out = Vec::new();
    for k in 0..chars.len() {
        if chars[k].1 == '-' && k > 0 && k + 1 < chars.len() {
            if chars[k - 1].1.is_alphanumeric() && chars[k + 1].1.is_alphanumeric() {
                out.push(chars[k].0 + 1);
            }
        }
    }
    out
}

pub fn ref_split_points(split: Split, word: &str) -> Vec<usize> {
    match split {
        Split::None => Vec::new(),
        Split::Hyphen => hyphen_points(word),
        Split::Custom => custom_split_points(word),
    }
}

/// KF-2 signature: a hyphen split point (a '-' with alphanumeric neighbours)
/// lies inside a well-formed escape sequence of `text` (e.g. a hyperlink URL
/// such as `ESC]8;;http://my-site.com ESC\`), so the hyphen splitter cuts the
/// sequence in two.
pub fn hyphen_point_inside_sequence(text: &str) -> bool {
    if !text.contains('\u{1b}') {
        return false;
    }
    for t in tokenize(text) {
        if !matches!(t.kind, Kind::Csi | Kind::Osc) {
            continue;
        }
        let seq = &text[t.start..t.end];
        let chars: Vec<char> = seq.chars().collect();
        for k in 1..chars.len().saturating_sub(1) {
            if chars[k] == '-' && chars[k - 1].is_alphanumeric() && chars[k + 1].is_alphanumeric() {
                return true;
            }
        }
    }
    false
}

/// KF-3: a Hebrew letter (possibly with combining marks of its own), a '-' and an
/// *alphanumeric combining mark* in a row (e.g. U+05E1 '-' U+06ED). UAX #14 forbids a break after "Hebrew letter +
/// hyphen" (LB21a) and attaches the mark to the hyphen (LB9), so the position
/// after the mark is no break opportunity; the hyphen splitter, however, splits
/// between the hyphen and the mark (both neighbours are alphanumeric). Once
/// that split has put the mark at the start of a line, a second pass treats it
/// as an ordinary letter (LB10) and finds the opportunity after it.
#[cfg(feature = "ulb")]
pub fn hebrew_hyphen_mark(text: &str) -> bool {
    use unicode_linebreak::{break_property, BreakClass};
    let cs: Vec<char> = text.chars().collect();
    let is_mark = |c: char| matches!(break_property(c as u32), BreakClass::CombiningMark | BreakClass::ZeroWidthJoiner);
    for i in 1..cs.len().saturating_sub(1) {
        if cs[i] != '-' || !(cs[i + 1].is_alphanumeric() && is_mark(cs[i + 1])) {
            continue;
        }
        // the Hebrew letter may carry marks of its own (LB9: "HL CM*" acts as HL)
        let mut k = i;
        while k > 0 && is_mark(cs[k - 1]) {
            k -= 1;
        }
        if k > 0 && break_property(cs[k - 1] as u32) == BreakClass::HebrewLetter {
            return true;
        }
    }
    false
}

#[cfg(not(feature = "ulb"))]
pub fn hebrew_hyphen_mark(_text: &str) -> bool {
    false
}
