//! Reference display width, written from the statement of C10.

use super::ansi::{tokenize, Kind};

/// Reference per-character column width for the compiled feature set.
#[cfg(feature = "uw")]
pub fn ref_char_width(c: char) -> usize {
    unicode_width::UnicodeWidthChar::width(c).unwrap_or(0)
}

#[cfg(not(feature = "uw"))]
pub fn ref_char_width(c: char) -> usize {
    if (c as u32) < 0x1100 {
        1
    } else {
        2
    }
}

/// Sum of reference widths of the characters left after removing CSI/OSC
/// sequences (meaningful for clean text; dirty tokens count as removed).
pub fn ref_width(text: &str) -> usize {
    if !text.contains('\u{1b}') {
        return text.chars().map(ref_char_width).sum();
    }
    tokenize(text)
        .into_iter()
        .map(|t| match t.kind {
            Kind::Char(c) => ref_char_width(c),
            _ => 0,
        })
        .sum()
}

/// Number of characters of non-zero reference width outside sequences.
pub fn visible_nonzero(text: &str) -> usize {
    tokenize(text)
        .into_iter()
        .filter(|t| match t.kind {
            Kind::Char(c) => ref_char_width(c) > 0,
            _ => false,
        })
        .count()
}
