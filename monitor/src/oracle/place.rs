//! C01 placement search: locate every returned line as indent + slice (+ '-')
//! in the input text, in order, with only spaces / line-ending sequences
//! left uncovered. The search is existential; side conditions are part of
//! candidate validity.

use crate::case::{OptSpec, Sep, Split};
use std::collections::HashSet;

#[derive(Clone, Debug)]
pub struct LineIn<'a> {
    pub full: &'a str,
    /// Some(true) = Cow::Borrowed, Some(false) = Cow::Owned, None = unknown (fill).
    pub borrowed: Option<bool>,
    /// Byte offset of the line inside the text, when borrowed and inside the buffer.
    pub ptr_off: Option<usize>,
    /// Borrowed, non-empty, but pointing outside the caller's buffer.
    pub outside: bool,
}

#[derive(Clone, Copy, Debug, PartialEq, Eq)]
pub struct Placed {
    pub start: usize,
    pub end: usize,
    pub hyphen: bool,
}

#[derive(Clone, Debug)]
pub enum PlaceErr {
    MissingIndent { line: usize },
    BorrowedOutside { line: usize },
    /// No way to place all lines; `reached` = highest line index for which a
    /// candidate was ever tried.
    NoPlacement { reached: usize, detail: String },
}

impl PlaceErr {
    pub fn describe(&self) -> String {
        match self {
            PlaceErr::MissingIndent { line } => format!("line {} does not start with its indent", line),
            PlaceErr::BorrowedOutside { line } => format!("borrowed line {} lies outside the caller's buffer", line),
            PlaceErr::NoPlacement { reached, detail } => {
                format!("lines cannot be placed as in-order slices (search got as far as line {}): {}", reached, detail)
            }
        }
    }
}

struct Search<'a> {
    text: &'a str,
    le: &'a str,
    split: Split,
    bw: bool,
    sep: Sep,
    bodies: Vec<&'a str>,
    lines: &'a [LineIn<'a>],
    indent_empty: Vec<bool>,
    body_off: Vec<Option<usize>>,
    failed: HashSet<(usize, usize)>,
    reached: usize,
    out: Vec<Placed>,
    /// spans (start,end) of the words of the configured separator
    words: Option<Vec<(usize, usize)>>,
}

/// Spans (start, end of the word part) of all words of every paragraph under
/// the given separator, using the library's own find_words (assume-guarantee
/// on C11).
fn word_spans(text: &str, le: &str, sep: Sep) -> Vec<(usize, usize)> {
    let mut spans = Vec::new();
    let separator = match sep {
        Sep::Ascii => textwrap::WordSeparator::AsciiSpace,
        #[cfg(feature = "ulb")]
        Sep::Unicode => textwrap::WordSeparator::UnicodeBreakProperties,
        #[cfg(not(feature = "ulb"))]
        Sep::Unicode => return spans,
    };
    let mut off = 0usize;
    for para in text.split(le) {
        let mut p = off;
        for w in separator.find_words(para) {
            let wl = w.word.len();
            spans.push((p, p + wl));
            p += wl + w.whitespace.len();
        }
        off += para.len() + le.len();
    }
    // the other admissible reading of "paragraph" (every LF, with one CR before it, ends a paragraph): its
    // words are admissible carriers of the side conditions too
    let stray = if le == "\r\n" {
        let b = text.as_bytes();
        (0..b.len()).any(|i| b[i] == b'\n' && (i == 0 || b[i - 1] != b'\r'))
    } else {
        text.contains("\r\n")
    };
    if stray {
        let mut off = 0usize;
        for piece in text.split('\n') {
            let para = piece.strip_suffix('\r').unwrap_or(piece);
            let mut p = off;
            for w in separator.find_words(para) {
                let wl = w.word.len();
                spans.push((p, p + wl));
                p += wl + w.whitespace.len();
            }
            off += piece.len() + 1;
        }
    }
    spans
}

/// "Part of a line-ending sequence": the statement of C01 does not say *the
/// configured* line ending, so a CR LF or a bare LF may be left uncovered in
/// either mode (a library that treats both as paragraph breaks keeps C01).
fn other_ending(rest: &str) -> Option<usize> {
    if rest.starts_with("\r\n") {
        Some(2)
    } else if rest.starts_with('\n') {
        Some(1)
    } else {
        None
    }
}

impl<'a> Search<'a> {
    fn spans(&mut self) -> &Vec<(usize, usize)> {
        if self.words.is_none() {
            self.words = Some(word_spans(self.text, self.le, self.sep));
        }
        self.words.as_ref().unwrap()
    }

    /// A slice may end in a space only strictly inside a word (of the Unicode
    /// separator) that itself contains a space, and only with break_words.
    fn space_end_allowed(&mut self, e: usize) -> bool {
        if !(self.bw && self.sep == Sep::Unicode) {
            return false;
        }
        let text = self.text;
        self.spans().iter().any(|&(s, t)| s < e && e < t && text.get(s..t).map_or(false, |w| w.contains(' ')))
    }

    /// An inserted hyphen is legitimate only directly after one of the custom
    /// splitter's split points of the word containing the position.
    fn hyphen_allowed(&mut self, e: usize) -> bool {
        let text = self.text;
        self.spans().iter().any(|&(s, t)| {
            s < e && e < t && text.get(s..t).map_or(false, |w| crate::case::custom_split_points(w).contains(&(e - s)))
        })
    }

    fn starts(&self, i: usize, pos: usize) -> Vec<usize> {
        let mut v = vec![pos];
        if i == 0 {
            return v;
        }
        let b = self.text.as_bytes();
        let mut p = pos;
        loop {
            if p < b.len() && b[p] == b' ' {
                p += 1;
            } else if self.text[p..].starts_with(self.le) {
                p += self.le.len();
            } else if let Some(n) = other_ending(&self.text[p..]) {
                p += n;
            } else {
                break;
            }
            v.push(p);
        }
        v
    }

    fn tail_ok(&self, pos: usize) -> bool {
        let b = self.text.as_bytes();
        let mut p = pos;
        while p < b.len() {
            if b[p] == b' ' {
                p += 1;
            } else if self.text[p..].starts_with(self.le) {
                p += self.le.len();
            } else if let Some(n) = other_ending(&self.text[p..]) {
                p += n;
            } else {
                return false;
            }
        }
        true
    }

    fn go(&mut self, i: usize, pos: usize) -> bool {
        if i == self.bodies.len() {
            return self.tail_ok(pos);
        }
        if self.failed.contains(&(i, pos)) {
            return false;
        }
        if i > self.reached {
            self.reached = i;
        }
        let body = self.bodies[i];
        let line = &self.lines[i];
        let must_borrow_slice = line.borrowed == Some(true);
        let must_have_hyphen = line.borrowed == Some(false) && self.indent_empty[i];
        let fixed = self.body_off[i];
        for p in self.starts(i, pos) {
            if let Some(f) = fixed {
                if p != f {
                    continue;
                }
            }
            // variant (a): body is the slice
            if !must_have_hyphen && self.text[p..].starts_with(body) {
                let e = p + body.len();
                let ok_space = !body.ends_with(' ') || self.space_end_allowed(e);
                if ok_space {
                    self.out.push(Placed { start: p, end: e, hyphen: false });
                    if self.go(i + 1, e) {
                        return true;
                    }
                    self.out.pop();
                }
            }
            // variant (b): slice + inserted hyphen (custom splitter only)
            if !must_borrow_slice && self.split == Split::Custom && body.len() >= 2 && body.ends_with('-') {
                let slice = &body[..body.len() - 1];
                if self.text[p..].starts_with(slice) {
                    let e = p + slice.len();
                    let prev_alnum = slice.chars().next_back().map(|c| c.is_alphanumeric()).unwrap_or(false);
                    let inside = e < self.text.len();
                    if prev_alnum && inside && self.hyphen_allowed(e) {
                        self.out.push(Placed { start: p, end: e, hyphen: true });
                        if self.go(i + 1, e) {
                            return true;
                        }
                        self.out.pop();
                    }
                }
            }
        }
        self.failed.insert((i, pos));
        false
    }
}

/// Try to place all lines. `o` supplies indents and the options that decide
/// the side conditions.
pub fn place<'a>(text: &'a str, o: &'a OptSpec, lines: &'a [LineIn<'a>]) -> Result<Vec<Placed>, PlaceErr> {
    let mut bodies = Vec::with_capacity(lines.len());
    let mut indent_empty = Vec::with_capacity(lines.len());
    let mut body_off = Vec::with_capacity(lines.len());
    for (i, l) in lines.iter().enumerate() {
        let indent: &str = if i == 0 { &o.ii } else { &o.si };
        if l.outside {
            return Err(PlaceErr::BorrowedOutside { line: i });
        }
        match l.full.strip_prefix(indent) {
            Some(b) => bodies.push(b),
            None => return Err(PlaceErr::MissingIndent { line: i }),
        }
        indent_empty.push(indent.is_empty());
        body_off.push(match (l.borrowed, l.ptr_off) {
            (Some(true), Some(off)) if !l.full.is_empty() => Some(off + indent.len()),
            _ => None,
        });
    }
    let mut s = Search {
        text,
        le: o.le(),
        split: o.split,
        bw: o.bw,
        sep: o.sep,
        bodies,
        lines,
        indent_empty,
        body_off,
        failed: HashSet::new(),
        reached: 0,
        out: Vec::new(),
        words: None,
    };
    if s.go(0, 0) {
        Ok(s.out)
    } else {
        let r = s.reached;
        let detail = format!(
            "line {:?} (owned={:?})",
            lines.get(r).map(|l| l.full).unwrap_or(""),
            lines.get(r).map(|l| l.borrowed == Some(false))
        );
        Err(PlaceErr::NoPlacement { reached: r, detail })
    }
}
