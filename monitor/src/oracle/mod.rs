pub mod algos;
pub mod ansi;
pub mod place;
pub mod width;
pub mod words;
