//! Reference models for the two line-breaking algorithms, written from the
//! statements of C03 and C07 and the documented cost model.

use crate::case::{Frag, Pen};

/// Width of line `k`: k-th listed width, the last one repeats, 0 for an empty list.
pub fn line_width(lws: &[f64], k: usize) -> f64 {
    match lws.get(k) {
        Some(w) => *w,
        None => lws.last().copied().unwrap_or(0.0),
    }
}

/// Check that `parts` (lengths of consecutive lines over `frags`) is exactly
/// the greedy-maximal arrangement of C07. Returns Err(description) otherwise.
pub fn check_greedy(frags: &[Frag], lws: &[f64], parts: &[usize]) -> Result<(), String> {
    let mut pos = 0usize;
    for (k, len) in parts.iter().enumerate() {
        let w = line_width(lws, k);
        let mut acc = 0.0f64;
        for j in pos..pos + len {
            let f = &frags[j];
            if j > pos && acc + f.w + f.pw > w {
                return Err(format!(
                    "line {} holds fragment {} although accumulated {} + width {} + penalty {} > line width {}",
                    k, j, acc, f.w, f.pw, w
                ));
            }
            acc += f.w + f.ws;
        }
        let nxt = pos + len;
        if nxt < frags.len() {
            let f = &frags[nxt];
            if !(acc + f.w + f.pw > w) {
                return Err(format!(
                    "line {} ended before fragment {} although accumulated {} + width {} + penalty {} <= line width {}",
                    k, nxt, acc, f.w, f.pw, w
                ));
            }
        }
        pos = nxt;
    }
    Ok(())
}

/// Independent greedy simulation, returns line lengths.
pub fn greedy(frags: &[Frag], lws: &[f64]) -> Vec<usize> {
    let mut parts = Vec::new();
    let mut cur = 0usize;
    let mut acc = 0.0f64;
    for f in frags {
        let w = line_width(lws, parts.len());
        if cur > 0 && acc + f.w + f.pw > w {
            parts.push(cur);
            cur = 0;
            acc = 0.0;
        }
        acc += f.w + f.ws;
        cur += 1;
    }
    parts.push(cur);
    parts
}

/// Cost model from the documentation of `Penalties` / `wrap_optimal_fit`.
pub struct CostModel<'a> {
    pub frags: &'a [Frag],
    pub lws: &'a [f64],
    pub pen: Pen,
    /// clamp the target width of a line to at least 1 (what the library does);
    /// the documentation does not mention the clamp, so the monitors accept
    /// optimality under either reading (they coincide for widths >= 1)
    pub clamp: bool,
    prefix: Vec<f64>,
}

impl<'a> CostModel<'a> {
    pub fn new(frags: &'a [Frag], lws: &'a [f64], pen: Pen) -> Self {
        let mut prefix = Vec::with_capacity(frags.len() + 1);
        let mut acc = 0.0;
        prefix.push(acc);
        for f in frags {
            acc += f.w + f.ws;
            prefix.push(acc);
        }
        CostModel { frags, lws, pen, clamp: true, prefix }
    }

    /// Cost of one line holding fragments i..j (j > i) as line number `line_no`.
    pub fn line_cost(&self, i: usize, j: usize, line_no: usize) -> f64 {
        let n = self.frags.len();
        let last = &self.frags[j - 1];
        let target = if self.clamp { line_width(self.lws, line_no).max(1.0) } else { line_width(self.lws, line_no) };
        let lw = self.prefix[j] - self.prefix[i] - last.ws + last.pw;
        let mut cost = self.pen.nline as f64;
        if lw > target {
            cost += (lw - target) * self.pen.overflow as f64;
        } else if j < n {
            let gap = target - lw;
            cost += gap * gap;
        } else if j == i + 1 && lw < target / self.pen.frac as f64 {
            cost += self.pen.short as f64;
        }
        if last.pw > 0.0 {
            cost += self.pen.hyphen as f64;
        }
        cost
    }

    /// Total cost of an arrangement given as line lengths.
    pub fn total(&self, parts: &[usize]) -> f64 {
        let mut pos = 0;
        let mut c = 0.0;
        for (k, len) in parts.iter().enumerate() {
            c += self.line_cost(pos, pos + len, k);
            pos += len;
        }
        c
    }

    /// Exact minimum for at most two line widths: O(n^2) prefix DP (the cost
    /// of a line depends only on whether it is the first line).
    pub fn min_two_widths(&self) -> f64 {
        let n = self.frags.len();
        let mut best = vec![f64::INFINITY; n + 1];
        best[0] = 0.0;
        for j in 1..=n {
            let mut b = f64::INFINITY;
            for i in 0..j {
                let c = best[i] + self.line_cost(i, j, if i == 0 { 0 } else { 1 });
                if c < b {
                    b = c;
                }
            }
            best[j] = b;
        }
        best[n]
    }

    /// Exact minimum for any number of line widths: DP over (line count, prefix), O(n^3).
    pub fn min_line_count_dp(&self) -> f64 {
        let n = self.frags.len();
        // cur[j] = min cost of arranging first j fragments into exactly l lines
        let mut prev = vec![f64::INFINITY; n + 1];
        prev[0] = 0.0;
        let mut best = f64::INFINITY;
        for l in 1..=n {
            let mut cur = vec![f64::INFINITY; n + 1];
            for j in l..=n {
                let mut b = f64::INFINITY;
                for i in (l - 1)..j {
                    if prev[i].is_finite() {
                        let c = prev[i] + self.line_cost(i, j, l - 1);
                        if c < b {
                            b = c;
                        }
                    }
                }
                cur[j] = b;
            }
            if cur[n] < best {
                best = cur[n];
            }
            prev = cur;
        }
        best
    }

    /// Brute force over all 2^(n-1) arrangements (n <= 20).
    pub fn min_brute(&self) -> f64 {
        let n = self.frags.len();
        assert!(n >= 1 && n <= 20);
        let mut best = f64::INFINITY;
        for mask in 0u32..(1u32 << (n - 1)) {
            let mut pos = 0;
            let mut line_no = 0;
            let mut c = 0.0;
            for k in 0..n {
                let brk = k == n - 1 || (mask >> k) & 1 == 1;
                if brk {
                    c += self.line_cost(pos, k + 1, line_no);
                    pos = k + 1;
                    line_no += 1;
                }
            }
            if c < best {
                best = c;
            }
        }
        best
    }
}
