//! A monitored case: complete input of one check, serialisable for replay.

use crate::json::{hex, unhex, J};
use textwrap::{LineEnding, Options, WordSeparator, WordSplitter, WrapAlgorithm};

#[derive(Clone, Copy, Debug, PartialEq, Eq, Hash)]
pub struct Pen {
    pub nline: usize,
    pub overflow: usize,
    pub frac: usize,
    pub short: usize,
    pub hyphen: usize,
}

impl Pen {
    pub const DEFAULT: Pen = Pen { nline: 1000, overflow: 2500, frac: 4, short: 25, hyphen: 25 };
    pub fn is_default(&self) -> bool {
        *self == Pen::DEFAULT
    }
    #[cfg(feature = "smawk")]
    pub fn build(&self) -> textwrap::wrap_algorithms::Penalties {
        let mut p = textwrap::wrap_algorithms::Penalties::new();
        p.nline_penalty = self.nline;
        p.overflow_penalty = self.overflow;
        p.short_last_line_fraction = self.frac;
        p.short_last_line_penalty = self.short;
        p.hyphen_penalty = self.hyphen;
        p
    }
    fn to_json(&self) -> J {
        J::Arr(vec![J::u(self.nline), J::u(self.overflow), J::u(self.frac), J::u(self.short), J::u(self.hyphen)])
    }
    fn from_json(j: &J) -> Option<Pen> {
        let a = j.as_arr()?;
        Some(Pen {
            nline: a.get(0)?.as_usize()?,
            overflow: a.get(1)?.as_usize()?,
            frac: a.get(2)?.as_usize()?,
            short: a.get(3)?.as_usize()?,
            hyphen: a.get(4)?.as_usize()?,
        })
    }
}

#[derive(Clone, Copy, Debug, PartialEq, Eq, Hash)]
pub enum Algo {
    FirstFit,
    Optimal(Pen),
}

#[derive(Clone, Copy, Debug, PartialEq, Eq, Hash)]
pub enum Sep {
    Ascii,
    Unicode,
}

#[derive(Clone, Copy, Debug, PartialEq, Eq, Hash)]
pub enum Split {
    None,
    Hyphen,
    Custom,
}

#[derive(Clone, Debug, PartialEq, Eq, Hash)]
pub struct OptSpec {
    pub width: usize,
    pub ii: String,
    pub si: String,
    pub crlf: bool,
    pub algo: Algo,
    pub sep: Sep,
    pub split: Split,
    pub bw: bool,
}

/// The harness's custom splitter: a split point after every second
/// alphanumeric character and after every '-' (never at 0 or at the end).
/// Points after '-' exercise the "already ends in '-'" penalty rule, the
/// others the inserted hyphen.
pub fn custom_split_points(word: &str) -> Vec<usize> {
    let mut out = Vec::new();
    let mut alnum = 0usize;
    for (idx, ch) in word.char_indices() {
        let end = idx + ch.len_utf8();
        if end >= word.len() {
            break;
        }
        if ch == '-' {
            out.push(end);
            alnum = 0;
        } else if ch.is_alphanumeric() {
            alnum += 1;
            if alnum % 2 == 0 {
                out.push(end);
            }
        }
    }
    out
}

impl OptSpec {
    pub fn new(width: usize) -> OptSpec {
        OptSpec {
            width,
            ii: String::new(),
            si: String::new(),
            crlf: false,
            algo: Algo::FirstFit,
            sep: Sep::Ascii,
            split: Split::None,
            bw: true,
        }
    }

    pub fn le(&self) -> &'static str {
        if self.crlf {
            "\r\n"
        } else {
            "\n"
        }
    }

    /// Can this option set be built with the compiled feature set?
    pub fn available(&self) -> bool {
        if self.sep == Sep::Unicode && !cfg!(feature = "ulb") {
            return false;
        }
        if matches!(self.algo, Algo::Optimal(_)) && !cfg!(feature = "smawk") {
            return false;
        }
        true
    }

    /// How the options reach the library for this (text, options) pair: by
    /// value or by reference (`From<&Options>`). Every entry point accepts
    /// both; the monitors alternate deterministically so that replays agree.
    pub fn by_ref(&self, text: &str) -> bool {
        (crate::rng::fnv(text.as_bytes()) ^ (self.width as u64).wrapping_mul(0x9E37) ^ self.ii.len() as u64).count_ones() & 1 == 1
    }

    pub fn fill(&self, text: &str) -> String {
        let b = self.build();
        if self.by_ref(text) {
            textwrap::fill(text, &b)
        } else {
            textwrap::fill(text, b)
        }
    }

    pub fn refill(&self, text: &str) -> String {
        let b = self.build();
        if self.by_ref(text) {
            textwrap::refill(text, &b)
        } else {
            textwrap::refill(text, b)
        }
    }

    pub fn wrap_owned(&self, text: &str) -> Vec<String> {
        let b = self.build();
        let v = if self.by_ref(text) { textwrap::wrap(text, &b) } else { textwrap::wrap(text, self.build()) };
        v.into_iter().map(|c| c.into_owned()).collect()
    }

    pub fn wrap_columns(&self, text: &str, cols: usize, l: &str, m: &str, r: &str) -> Vec<String> {
        let b = self.build();
        if self.by_ref(text) {
            textwrap::wrap_columns(text, cols, &b, l, m, r)
        } else {
            textwrap::wrap_columns(text, cols, b, l, m, r)
        }
    }

    pub fn build(&self) -> Options<'_> {
        let mut o = Options::new(self.width)
            .initial_indent(&self.ii)
            .subsequent_indent(&self.si)
            .break_words(self.bw)
            .line_ending(if self.crlf { LineEnding::CRLF } else { LineEnding::LF });
        o = o.word_separator(self.sep_build());
        o = o.word_splitter(self.split_build());
        o = o.wrap_algorithm(self.algo_build());
        o
    }

    pub fn sep_build(&self) -> WordSeparator {
        match self.sep {
            Sep::Ascii => WordSeparator::AsciiSpace,
            #[cfg(feature = "ulb")]
            Sep::Unicode => WordSeparator::UnicodeBreakProperties,
            #[cfg(not(feature = "ulb"))]
            Sep::Unicode => panic!("twmon: unicode separator not compiled in"),
        }
    }

    pub fn split_build(&self) -> WordSplitter {
        match self.split {
            Split::None => WordSplitter::NoHyphenation,
            Split::Hyphen => WordSplitter::HyphenSplitter,
            Split::Custom => WordSplitter::Custom(custom_split_points),
        }
    }

    pub fn algo_build(&self) -> WrapAlgorithm {
        match self.algo {
            Algo::FirstFit => WrapAlgorithm::FirstFit,
            #[cfg(feature = "smawk")]
            Algo::Optimal(p) => WrapAlgorithm::OptimalFit(p.build()),
            #[cfg(not(feature = "smawk"))]
            Algo::Optimal(_) => panic!("twmon: optimal-fit not compiled in"),
        }
    }

    /// Short signature of the option *shape* (not the concrete strings).
    pub fn shape(&self) -> u64 {
        let a = match self.algo {
            Algo::FirstFit => 0,
            Algo::Optimal(p) if p.is_default() => 1,
            Algo::Optimal(_) => 2,
        };
        let s = match self.sep {
            Sep::Ascii => 0,
            Sep::Unicode => 1,
        };
        let sp = match self.split {
            Split::None => 0,
            Split::Hyphen => 1,
            Split::Custom => 2,
        };
        let ii = if self.ii.is_empty() { 0 } else { 1 };
        let si = if self.si.is_empty() { 0 } else { 1 };
        (a | s << 2 | sp << 3 | (self.bw as u64) << 5 | (self.crlf as u64) << 6 | ii << 7 | si << 8) as u64
    }

    pub fn to_json(&self) -> J {
        let mut j = J::obj();
        j.put("width", J::u(self.width));
        j.put("initial_indent_hex", J::s(&hex(self.ii.as_bytes())));
        j.put("subsequent_indent_hex", J::s(&hex(self.si.as_bytes())));
        j.put("initial_indent", J::s(&self.ii));
        j.put("subsequent_indent", J::s(&self.si));
        j.put("crlf", J::Bool(self.crlf));
        match self.algo {
            Algo::FirstFit => j.put("algo", J::s("first_fit")),
            Algo::Optimal(p) => {
                j.put("algo", J::s("optimal_fit"));
                j.put("penalties", p.to_json());
            }
        }
        j.put("separator", J::s(match self.sep {
            Sep::Ascii => "ascii",
            Sep::Unicode => "unicode",
        }));
        j.put("splitter", J::s(match self.split {
            Split::None => "none",
            Split::Hyphen => "hyphen",
            Split::Custom => "custom",
        }));
        j.put("break_words", J::Bool(self.bw));
        j
    }

    pub fn from_json(j: &J) -> Option<OptSpec> {
        let s = |k: &str| -> Option<String> {
            String::from_utf8(unhex(j.get(k)?.as_str()?)?).ok()
        };
        Some(OptSpec {
            width: j.get("width")?.as_usize()?,
            ii: s("initial_indent_hex")?,
            si: s("subsequent_indent_hex")?,
            crlf: j.get("crlf")?.as_bool()?,
            algo: match j.get("algo")?.as_str()? {
                "first_fit" => Algo::FirstFit,
                _ => Algo::Optimal(Pen::from_json(j.get("penalties")?)?),
            },
            sep: match j.get("separator")?.as_str()? {
                "ascii" => Sep::Ascii,
                _ => Sep::Unicode,
            },
            split: match j.get("splitter")?.as_str()? {
                "none" => Split::None,
                "hyphen" => Split::Hyphen,
                _ => Split::Custom,
            },
            bw: j.get("break_words")?.as_bool()?,
        })
    }
}

#[derive(Clone, Copy, Debug, PartialEq)]
pub struct Frag {
    pub w: f64,
    pub ws: f64,
    pub pw: f64,
}

impl textwrap::core::Fragment for Frag {
    fn width(&self) -> f64 {
        self.w
    }
    fn whitespace_width(&self) -> f64 {
        self.ws
    }
    fn penalty_width(&self) -> f64 {
        self.pw
    }
}

/// Complete input of one monitored case.
#[derive(Clone, Debug, Default)]
pub struct Case {
    /// Sub-monitor name inside the property (e.g. "sweep", "frag", "text").
    pub sub: String,
    pub texts: Vec<String>,
    pub opts: Vec<OptSpec>,
    pub frags: Vec<Frag>,
    pub lws: Vec<f64>,
    pub pen: Option<Pen>,
    pub nums: Vec<usize>,
}

fn f64_json(f: f64) -> J {
    J::Str(format!("{:016x}", f.to_bits()))
}
fn f64_from(j: &J) -> Option<f64> {
    Some(f64::from_bits(u64::from_str_radix(j.as_str()?, 16).ok()?))
}

impl Case {
    pub fn new(sub: &str) -> Case {
        Case { sub: sub.to_string(), ..Default::default() }
    }
    pub fn text(mut self, t: impl Into<String>) -> Case {
        self.texts.push(t.into());
        self
    }
    pub fn opt(mut self, o: OptSpec) -> Case {
        self.opts.push(o);
        self
    }
    pub fn num(mut self, n: usize) -> Case {
        self.nums.push(n);
        self
    }
    pub fn t(&self, i: usize) -> &str {
        &self.texts[i]
    }
    pub fn o(&self, i: usize) -> &OptSpec {
        &self.opts[i]
    }

    pub fn to_json(&self) -> J {
        let mut j = J::obj();
        j.put("sub", J::s(&self.sub));
        j.put("texts_hex", J::Arr(self.texts.iter().map(|t| J::s(&hex(t.as_bytes()))).collect()));
        j.put("texts", J::Arr(self.texts.iter().map(|t| J::s(&preview(t, 400))).collect()));
        j.put("opts", J::Arr(self.opts.iter().map(|o| o.to_json()).collect()));
        if !self.frags.is_empty() || self.sub.contains("frag") {
            j.put(
                "frags_bits",
                J::Arr(self.frags.iter().map(|f| J::Arr(vec![f64_json(f.w), f64_json(f.ws), f64_json(f.pw)])).collect()),
            );
            j.put(
                "frags",
                J::Arr(self.frags.iter().map(|f| J::Arr(vec![J::Num(f.w), J::Num(f.ws), J::Num(f.pw)])).collect()),
            );
            j.put("line_widths_bits", J::Arr(self.lws.iter().map(|f| f64_json(*f)).collect()));
            j.put("line_widths", J::Arr(self.lws.iter().map(|f| J::Num(*f)).collect()));
        }
        if let Some(p) = self.pen {
            j.put("penalties", p.to_json());
        }
        j.put("nums", J::Arr(self.nums.iter().map(|n| J::u(*n)).collect()));
        j
    }

    pub fn from_json(j: &J) -> Option<Case> {
        let mut c = Case::new(j.get("sub")?.as_str()?);
        for t in j.get("texts_hex")?.as_arr()? {
            c.texts.push(String::from_utf8(unhex(t.as_str()?)?).ok()?);
        }
        for o in j.get("opts")?.as_arr()? {
            c.opts.push(OptSpec::from_json(o)?);
        }
        if let Some(fr) = j.get("frags_bits") {
            for f in fr.as_arr()? {
                let a = f.as_arr()?;
                c.frags.push(Frag { w: f64_from(&a[0])?, ws: f64_from(&a[1])?, pw: f64_from(&a[2])? });
            }
            for f in j.get("line_widths_bits")?.as_arr()? {
                c.lws.push(f64_from(f)?);
            }
        }
        if let Some(p) = j.get("penalties") {
            c.pen = Pen::from_json(p);
        }
        for n in j.get("nums")?.as_arr()? {
            c.nums.push(n.as_usize()?);
        }
        Some(c)
    }
}

/// Printable, truncated preview of a string (escapes control characters).
pub fn preview(s: &str, max: usize) -> String {
    let mut out = String::new();
    for (n, c) in s.chars().enumerate() {
        if n >= max {
            out.push_str("…(truncated)");
            break;
        }
        out.push(c);
    }
    out
}
