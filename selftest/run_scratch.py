#!/usr/bin/env python3
"""Mutation self-test of the monitors on scratch copies (never touches /repo).

usage: run_scratch.py [--jobs N] [--threads T] (--all | ID ...)
       run_scratch.py --patch FILE --name NAME      (a git-style patch instead of a search/replace mutant)

For each mutant: copy /repo and /verif/monitor to /tmp/selftest/<id>, apply the
change, run the repository's own test suite (does the existing suite kill it?),
build the harness against the mutated copy, run every property's quick monitor
(checked/default flavour) and record which properties raise a non-known
violation. Results: /verif/selftest/results/<id>.json. Scratch copies are removed.
"""
import json, os, shutil, subprocess, sys, time
from concurrent.futures import ThreadPoolExecutor

HERE = os.path.dirname(os.path.abspath(__file__))
sys.path.insert(0, HERE)
from mutants import M, MUST_STAY_SILENT

PROPS = ["C%02d" % i for i in range(1, 21)]
ROOT = "/tmp/selftest"


def sh(cmd, cwd=None, env=None, timeout=1800):
    p = subprocess.run(cmd, cwd=cwd, env=env, stdout=subprocess.PIPE, stderr=subprocess.STDOUT, text=True, timeout=timeout)
    return p.returncode, p.stdout


def run_one(mid, edit, threads, props, cases=None):
    w = os.path.join(ROOT, mid)
    shutil.rmtree(w, ignore_errors=True)
    os.makedirs(w)
    res = {"id": mid, "suite": None, "flagged": {}, "errors": {}, "status": "ok"}
    try:
        os.makedirs(w + "/repo")
        # committed state of /repo (HEAD), so that a temporarily modified working tree cannot leak in
        subprocess.run("git -C /repo archive HEAD | tar -x -C %s/repo" % w, shell=True, check=True)
        sh(["rsync", "-a", "--exclude", "target", os.environ.get("TWMON_SRC", "/verif/monitor") + "/", w + "/monitor/"])
        # apply the change
        if edit[0] == "replace":
            _, f, old, new = edit
            p = os.path.join(w, "repo", f)
            s = open(p).read()
            if old not in s:
                res["status"] = "PATCHFAIL"
                return res
            open(p, "w").write(s.replace(old, new, 1))
        else:
            rc, out = sh(["patch", "-p1", "-i", edit[1]], cwd=w + "/repo")
            if rc != 0:
                res["status"] = "PATCHFAIL"
                res["detail"] = out[-500:]
                return res
        env = dict(os.environ, CARGO_NET_OFFLINE="true")
        env.pop("RUSTFLAGS", None)
        rc, out = sh(["cargo", "test", "--offline", "--lib", "--tests", "-q"], cwd=w + "/repo", env=dict(env, CARGO_TARGET_DIR=w + "/rt"))
        if rc != 0 and ("error[E" in out or "could not compile" in out):
            res["status"] = "NOCOMPILE"
            return res
        res["suite"] = "survives" if rc == 0 else "killed(%d)" % out.count("FAILED")
        toml = open(w + "/monitor/Cargo.toml").read().replace('path = "/repo"', 'path = "%s/repo"' % w).replace('path = "/tmp/dev/repo"', 'path = "%s/repo"' % w)
        open(w + "/monitor/Cargo.toml", "w").write(toml)
        env2 = dict(env, RUSTFLAGS="--cfg fuzzing")
        rc, out = sh(["cargo", "build", "--offline", "--profile", "checked", "--features", "all", "--target-dir", w + "/mt"], cwd=w + "/monitor", env=env2)
        if rc != 0:
            res["status"] = "HARNESS_NOCOMPILE"
            res["detail"] = out[-800:]
            return res
        for prop in props:
            exe = w + "/mt/checked/" + ("twmon_c05" if prop == "C05" else "twmon")
            outf = w + "/%s.json" % prop
            try:
                extra = ["--cases", str(cases)] if cases else []
                p = subprocess.run([exe, "run", "--prop", prop, "--seed", "1", "--threads", str(threads), "--out", outf] + extra,
                                   stdout=subprocess.PIPE, stderr=subprocess.PIPE, text=True, timeout=600)
            except subprocess.TimeoutExpired:
                res["errors"][prop] = "timeout"
                continue
            if p.returncode != 0 or not os.path.exists(outf):
                res["errors"][prop] = "rc=%s %s" % (p.returncode, p.stderr[-200:])
                continue
            j = json.load(open(outf))
            unknown = j["violations_total"] - sum(j["known_total"].values())
            if unknown > 0:
                msg = next((v["message"] for v in j["violations"] if not v["known"]), "")
                res["flagged"][prop] = {"n": unknown, "first": msg[:300]}
            if j["harness_panics"]:
                res["errors"][prop] = "harness panic: " + j["harness_panics"][0][:300]
            inc = sum(j["inconclusive"].values())
            if inc:
                res.setdefault("inconclusive", {})[prop] = inc
        return res
    except Exception as e:
        res["status"] = "ERROR %r" % e
        return res
    finally:
        shutil.rmtree(w, ignore_errors=True)
        os.makedirs(HERE + "/results", exist_ok=True)
        json.dump(res, open(HERE + "/results/%s.json" % mid, "w"), indent=1)
        exp = "silent" if mid in MUST_STAY_SILENT else "fire"
        print("%s %-10s suite=%-10s flagged=%s errors=%s (expected: %s)" % (mid, res["status"], res["suite"], sorted(res["flagged"]), sorted(res["errors"]), exp), flush=True)


def main():
    args = sys.argv[1:]
    jobs, threads = 4, 4
    cases = None
    skip_done = False
    ids, props = [], PROPS
    patch = name = None
    i = 0
    allm = False
    while i < len(args):
        a = args[i]
        if a == "--jobs":
            jobs = int(args[i + 1]); i += 1
        elif a == "--threads":
            threads = int(args[i + 1]); i += 1
        elif a == "--props":
            props = args[i + 1].split(","); i += 1
        elif a == "--cases":
            cases = int(args[i + 1]); i += 1
        elif a == "--skip-done":
            skip_done = True
        elif a == "--all":
            allm = True
        elif a == "--patch":
            patch = args[i + 1]; i += 1
        elif a == "--name":
            name = args[i + 1]; i += 1
        else:
            ids.append(a)
        i += 1
    os.makedirs(ROOT, exist_ok=True)
    todo = []
    if patch:
        todo.append((name or os.path.basename(patch), ("patch", os.path.abspath(patch))))
    for (mid, f, old, new) in M:
        if allm or mid in ids:
            todo.append((mid, ("replace", f, old, new)))
    if skip_done:
        todo = [t for t in todo if not os.path.exists(HERE + "/results/%s.json" % t[0])]
    with ThreadPoolExecutor(max_workers=jobs) as ex:
        list(ex.map(lambda t: run_one(t[0], t[1], threads, props, cases), todo))


if __name__ == "__main__":
    main()
