#!/usr/bin/env python3
"""Write selftest/RESULTS.md from selftest/results/*.json and seeded/*/meta.json."""
import json, glob, os, sys
HERE = os.path.dirname(os.path.abspath(__file__))
sys.path.insert(0, HERE)
from mutants import M, MUST_STAY_SILENT

out = ["# Self-validation of the monitors", "",
       "## 1. Mutation battery (selftest/mutants.py, run by selftest/run_scratch.py on scratch copies)", "",
       "Each mutant is one search/replace edit of the repaired /repo tree. `suite` = does the repository's own test suite kill it; `flagged` = properties whose quick monitor (checked/default flavour, reduced case budget) raised a non-known violation.", "",
       "| id | file | change | suite | flagged by | expectation | ok |", "|---|---|---|---|---|---|---|"]
ok_all = True
for (mid, f, old, new) in M:
    p = os.path.join(HERE, "results", mid + ".json")
    if not os.path.exists(p):
        continue
    r = json.load(open(p))
    flagged = sorted(r["flagged"])
    exp = "silent" if mid in MUST_STAY_SILENT else "fire"
    ok = (not flagged) if exp == "silent" else bool(flagged)
    if r["status"] != "ok":
        ok = False
    ok_all &= ok
    short = lambda s: s.strip().replace("\n", " ").replace("|", "\\|")[:60]
    out.append("| %s | %s | `%s` -> `%s` | %s | %s | %s | %s |" % (mid, f.replace("src/", ""), short(old), short(new), r["suite"], ", ".join(flagged) or "-", exp, "yes" if ok else "**NO** (%s)" % r["status"]))
out += ["", "Must-stay-silent rationale:", ""]
for k, v in MUST_STAY_SILENT.items():
    out.append("* %s: %s" % (k, v))
out += ["", "## 2. Independently seeded changes (seeded/<id>/)", "",
        "Written by sub-agents that saw only the property text and a scratch worktree; each was confirmed by me (suite passes with the change, demo fails with / passes without) and then applied to /repo, all 20 quick checks run, and undone.", "",
        "| id | target | what was changed | needs | checks that fired | target caught |", "|---|---|---|---|---|---|"]
for d in sorted(glob.glob(os.path.join(HERE, "..", "seeded", "*"))):
    mp = os.path.join(d, "meta.json")
    if not os.path.exists(mp):
        continue
    m = json.load(open(mp))
    cr = m.get("checks_run", {})
    fired = cr.get("fired", [])
    tgt = m.get("property", os.path.basename(d)[:3])
    esc = lambda s: str(s).replace("\n", " ").replace("|", "\\|")[:160]
    rt = m.get("recheck_target_only")
    if rt:
        # a later re-run of the target check with a newer harness overrides the full evaluation for the target column
        caught = bool(rt.get("fired"))
        if not caught and tgt in fired:
            fired = [f for f in fired if f != tgt]
    else:
        caught = tgt in fired
    out.append("| %s | %s | %s | %s | %s | %s |" % (os.path.basename(d), tgt, esc(m.get("summary", "")), esc(m.get("needs", "")), ", ".join(fired) or "-", "yes" if caught else ("**no** (documented exception, DESIGN 8.1)" if cr else "not run")))
out += ["", "## 3. Independently written property-preserving changes (seeded_silent/<id>/)", "",
        "Behaviour-changing edits that keep the target property true; evaluated on scratch copies against all 20 monitors (`run_scratch.py --patch`). `target silent` must be yes; flags by other properties were examined one by one (DESIGN 8.2).", "",
        "| id | target | what was changed | flagged by (all monitors, first evaluation) | target silent (final harness) |", "|---|---|---|---|---|"]
for d in sorted(glob.glob(os.path.join(HERE, "..", "seeded_silent", "*"))):
    mp = os.path.join(d, "meta.json")
    if not os.path.exists(mp):
        continue
    m = json.load(open(mp))
    name = os.path.basename(d)
    tgt = m.get("property", name[:3])
    first = os.path.join(HERE, "results", "K-%s.json" % name)
    if not os.path.exists(first):
        first = os.path.join(HERE, "results", "K6-%s.json" % name)
    flagged = sorted(json.load(open(first))["flagged"]) if os.path.exists(first) else None
    final = None
    rt = m.get("recheck_target_only")
    if rt:
        final = not rt.get("fired") and rt.get("exit") == 0
    for pref in (() if rt else ("K3-", "K2-", "K-", "K6-")):
        fp = os.path.join(HERE, "results", pref + name + ".json")
        if os.path.exists(fp):
            r = json.load(open(fp))
            final = tgt not in r["flagged"]
            break
    esc = lambda s: str(s).replace("\n", " ").replace("|", "\\|")[:150]
    out.append("| %s | %s | %s | %s | %s |" % (name, tgt, esc(m.get("summary", "")), ", ".join(flagged) if flagged is not None else "not run", "yes" if final else ("**NO**" if final is not None else "not run")))
open(os.path.join(HERE, "RESULTS.md"), "w").write("\n".join(out) + "\n")
print("battery ok:", ok_all)
