#!/usr/bin/env python3
"""Seeded-change bookkeeping.

seeded.py verify <worktree> <mutdir> <name>   confirm a delivered change in a scratch worktree
                                               (applies, suite passes, demo fails with / passes without) and
                                               copy it to /verif/seeded/<name>/
seeded.py eval <name> [props...]              apply /verif/seeded/<name>/patch.diff to /repo, run the quick checks,
                                               undo, record which checks raised a violation in meta.json
"""
import json, os, shutil, subprocess, sys, time

SEEDED = os.environ.get("SEEDED_DIR", "/verif/seeded")
PROPS = ["C%02d" % i for i in range(1, 21)]
ENV = dict(os.environ, CARGO_NET_OFFLINE="true")


def sh(cmd, cwd=None, env=ENV, timeout=3600):
    p = subprocess.run(cmd, cwd=cwd, env=env, stdout=subprocess.PIPE, stderr=subprocess.STDOUT, text=True, timeout=timeout, shell=isinstance(cmd, str))
    return p.returncode, p.stdout


def config_flags(mutdir):
    """Cargo flags of the configuration in which a change shows (third round: feature / profile specific)."""
    try:
        kind = str(json.load(open(os.path.join(mutdir, "meta.json"))).get("kind", "")).strip()[:1].upper()
    except Exception:
        kind = ""
    return {"A": "--no-default-features", "B": "--release", "C": "--no-default-features --features unicode-linebreak,smawk"}.get(kind, "")


def verify(wt, mutdir, name):
    log = {}
    flags = config_flags(mutdir)
    log["configuration"] = flags or "default"
    n = os.path.basename(mutdir.rstrip("/"))
    rc, out = sh("git status --porcelain", cwd=wt)
    dirty = [l for l in out.splitlines() if not l.endswith("deliver/")]
    if dirty:
        sh("git checkout -- . && git clean -fdq tests", cwd=wt)
    rc, out = sh(["git", "apply", os.path.join(mutdir, "patch.diff")], cwd=wt)
    log["patch_applies"] = rc == 0
    if rc != 0:
        print(name, "PATCH DOES NOT APPLY", out[-300:])
        return False
    try:
        rc, out = sh("cargo test --offline 2>&1", cwd=wt)
        if rc == 0 and flags:
            rc, out2 = sh("cargo test --offline %s 2>&1" % flags, cwd=wt)
            log["suite_passes_with_change_in_configuration"] = rc == 0
            out += out2
        log["suite_passes_with_change"] = rc == 0
        log["suite_summary"] = [l for l in out.splitlines() if l.startswith("test result")]
        log["warnings_with_change"] = out.count("warning:")
        n = name.replace("-", "_")
        demo = "tests/demo_%s.rs" % n
        shutil.copy(os.path.join(mutdir, "demo.rs"), os.path.join(wt, demo))
        rc, out = sh("cargo test --offline %s --test demo_%s 2>&1" % (flags, n), cwd=wt)
        log["demo_fails_with_change"] = rc != 0 and "test result: FAILED" in out
        if flags:
            rc0, out0 = sh("cargo test --offline --test demo_%s 2>&1" % n, cwd=wt)
            log["demo_passes_with_change_in_default_configuration"] = rc0 == 0
        log["demo_failure"] = next((l for l in out.splitlines() if "panicked at" in l or "assertion" in l), "")[:300]
        sh("git checkout -- src", cwd=wt)
        rc, out = sh("cargo test --offline %s --test demo_%s 2>&1" % (flags, n), cwd=wt)
        log["demo_passes_without_change"] = rc == 0
    finally:
        sh("git checkout -- . ; rm -f tests/demo_*.rs", cwd=wt)
    ok = all(log.get(k) for k in ["patch_applies", "suite_passes_with_change", "demo_fails_with_change", "demo_passes_without_change"])
    print(name, "CONFIRMED" if ok else "REJECTED", json.dumps(log)[:600])
    if ok:
        d = os.path.join(SEEDED, name)
        os.makedirs(d, exist_ok=True)
        shutil.copy(os.path.join(mutdir, "patch.diff"), d)
        shutil.copy(os.path.join(mutdir, "demo.rs"), d)
        try:
            meta = json.load(open(os.path.join(mutdir, "meta.json")))
        except Exception:
            meta = {}
        meta["origin"] = "independent sub-agent given only the property text and a scratch worktree"
        meta["confirmed_by_me"] = {"base_commit": sh("git rev-parse HEAD", cwd=wt)[1].strip(), "what_i_ran": [
            "git apply patch.diff (scratch worktree)", "cargo test --offline (full suite incl. doctests): pass",
            "cargo test --offline --test demo: FAILS with the change", "git checkout -- src; cargo test --offline --test demo: passes"], **log}
        json.dump(meta, open(os.path.join(d, "meta.json"), "w"), indent=1, ensure_ascii=False)
    return ok


def evaluate(name, props):
    d = os.path.join(SEEDED, name)
    patch = os.path.join(d, "patch.diff")
    rc, out = sh("git -C /repo status --porcelain")
    if out.strip():
        print("refusing: /repo working tree is not clean:\n" + out)
        return
    rc, out = sh(["git", "-C", "/repo", "apply", patch])
    if rc != 0:
        print(name, "patch does not apply to /repo:", out[-300:])
        return
    results = {}
    t0 = time.time()
    try:
        env = dict(ENV, VERIF_EVIDENCE_DIR="/verif/target/seeded_evidence", VERIF_REPLAY_DIR="/verif/target/seeded_replays")
        for p in props:
            rc, out = sh(["/verif/bin/check", p, "quick"], cwd="/verif", env=env)
            viol = [l for l in out.splitlines() if l.startswith("VIOLATION")]
            first = next((l.strip() for l in out.splitlines() if l.startswith("  [")), "")
            results[p] = {"exit": rc, "violations": len(viol), "first": first[:300]}
            if rc == 2:
                results[p]["harness_error"] = [l for l in out.splitlines() if "HARNESS-ERROR" in l][:2]
    finally:
        sh("git -C /repo checkout -- .")
    meta = json.load(open(os.path.join(d, "meta.json")))
    fired = sorted(p for p, r in results.items() if r["exit"] == 1)
    meta["checks_run"] = {"command": "git -C /repo apply patch.diff; ./bin/check <id> quick for each id; git -C /repo checkout -- .", "seed": 1,
                          "props": props, "fired": fired, "harness_errors": sorted(p for p, r in results.items() if r["exit"] == 2),
                          "first_messages": {p: results[p]["first"] for p in fired}, "wall_s": round(time.time() - t0, 1)}
    json.dump(meta, open(os.path.join(d, "meta.json"), "w"), indent=1, ensure_ascii=False)
    target = meta.get("property", name[:3])
    print("%s target=%s fired=%s harness_errors=%s" % (name, target, fired, meta["checks_run"]["harness_errors"]))


def recheck(name):
    """Re-run only the target property's quick check on the seeded change (after harness changes)."""
    d = os.path.join(SEEDED, name)
    meta = json.load(open(os.path.join(d, "meta.json")))
    target = meta.get("property", name[:3])
    rc, out = sh("git -C /repo status --porcelain")
    if out.strip():
        print("refusing: /repo working tree is not clean")
        return
    rc, out = sh(["git", "-C", "/repo", "apply", os.path.join(d, "patch.diff")])
    if rc != 0:
        print(name, "patch does not apply")
        return
    try:
        env = dict(ENV, VERIF_EVIDENCE_DIR="/verif/target/seeded_evidence", VERIF_REPLAY_DIR="/verif/target/seeded_replays")
        rc, out = sh(["/verif/bin/check", target, "quick"], cwd="/verif", env=env)
    finally:
        sh("git -C /repo checkout -- .")
    first = next((l.strip() for l in out.splitlines() if l.startswith("  [")), "")
    head = sh("git -C /verif rev-parse --short HEAD")[1].strip()
    meta["recheck_target_only"] = {"verif_commit": head, "target": target, "exit": rc, "fired": rc == 1, "first": first[:300]}
    json.dump(meta, open(os.path.join(d, "meta.json"), "w"), indent=1, ensure_ascii=False)
    print("%s target=%s exit=%s %s" % (name, target, rc, "FIRED" if rc == 1 else "**MISSED**"))


if __name__ == "__main__":
    if sys.argv[1] == "recheck":
        for n in sys.argv[2:]:
            recheck(n)
        sys.exit(0)
    if sys.argv[1] == "verify":
        sys.exit(0 if verify(sys.argv[2], sys.argv[3], sys.argv[4]) else 1)
    elif sys.argv[1] == "eval":
        evaluate(sys.argv[2], sys.argv[3:] or PROPS)
